package merklearray

import (
	"testing"

	"github.com/algorand/go-algorand/crypto"
)

// A vector-commitment proof of the element at index 1 of a 4-leaf (depth 2) tree, presented with
// TreeDepth = 3 for index 2, and a plain Merkle proof with an inflated TreeDepth.
func TestFindingC37TreeDepthNotBound(t *testing.T) {
	a := make(TestArray, 4)
	for i := range a {
		crypto.RandBytes(a[i][:])
	}
	factory := crypto.HashFactory{HashType: crypto.Sha512_256}
	tree, err := BuildVectorCommitmentTree(a, factory)
	if err != nil {
		t.Fatal(err)
	}
	proof, err := tree.Prove([]uint64{1})
	if err != nil {
		t.Fatal(err)
	}
	root := tree.Root()
	if err := VerifyVectorCommitment(root, map[uint64]crypto.Hashable{1: a[1]}, proof); err != nil {
		t.Fatalf("honest proof rejected: %v", err)
	}
	t.Logf("honest TreeDepth = %d", proof.TreeDepth)
	proof.TreeDepth = 3
	err = VerifyVectorCommitment(root, map[uint64]crypto.Hashable{2: a[1]}, proof)
	if err == nil {
		t.Logf("FINDING REPRODUCED: the element of index 1 verifies at index 2 when the proof says TreeDepth 3 (real depth 2)")
	} else {
		t.Logf("not reproduced (the code now rejects it): %v", err)
	}

	tree2, _ := Build(a, factory)
	p2, _ := tree2.Prove([]uint64{1})
	p2.TreeDepth = 7
	err2 := Verify(tree2.Root(), map[uint64]crypto.Hashable{1: a[1]}, p2)
	if err2 == nil {
		t.Logf("FINDING REPRODUCED: a plain proof with TreeDepth 7 instead of 2 verifies")
	} else {
		t.Logf("not reproduced: %v", err2)
	}
}
