// Belongs in package directory: ledger/  -- demonstration of a repaired defect: both tests FAILED on the code before the
// fix commit (tampered catchpoint file accepted) and pass after it (the file is rejected).
// It shows that a catchpoint file in which an account record is preceded by a copy of the same record with
// ExpectingMoreEntries=true and modified account data passes VerifyCatchpoint under the honest label (the
// partial record is stored by WriteCatchpointStagingBalances but never hashed by prepareNormalizedBalancesV6).

package ledger

import (
	"context"
	"fmt"
	"testing"

	"github.com/stretchr/testify/require"

	"github.com/algorand/go-algorand/config"
	"github.com/algorand/go-algorand/crypto"
	"github.com/algorand/go-algorand/data/basics"
	"github.com/algorand/go-algorand/data/bookkeeping"
	"github.com/algorand/go-algorand/ledger/encoded"
	"github.com/algorand/go-algorand/ledger/ledgercore"
	"github.com/algorand/go-algorand/ledger/store/trackerdb"
	ledgertesting "github.com/algorand/go-algorand/ledger/testing"
	"github.com/algorand/go-algorand/logging"
	"github.com/algorand/go-algorand/protocol"
)

type tmpHoleSection struct {
	name string
	data []byte
}

func tmpHoleFile(tamper bool) ([]tmpHoleSection, basics.Address) {
	addr := basics.Address(crypto.Hash([]byte("hole-account")))
	acct := trackerdb.BaseAccountData{
		Status:      basics.Offline,
		MicroAlgos:  basics.MicroAlgos{Raw: 5_000_000},
		UpdateRound: 900,
	}
	var totals ledgercore.AccountTotals
	totals.Offline.Money = basics.MicroAlgos{Raw: 5_000_000}
	header := CatchpointFileHeader{
		Version:       CatchpointFileVersionV8,
		BalancesRound: 680,
		BlocksRound:   1000,
		Totals:        totals,
		TotalAccounts: 1,
		TotalChunks:   1,
	}
	bals := []encoded.BalanceRecordV6{{Address: addr, AccountData: protocol.Encode(&acct)}}
	if tamper {
		rich := acct
		rich.MicroAlgos = basics.MicroAlgos{Raw: 5_000_000_000_000_000}
		bals = []encoded.BalanceRecordV6{
			{Address: addr, AccountData: protocol.Encode(&rich), ExpectingMoreEntries: true},
			{Address: addr, AccountData: protocol.Encode(&acct)},
		}
	}
	chunk1 := CatchpointSnapshotChunkV6{Balances: bals}
	return []tmpHoleSection{
		{CatchpointContentFileName, protocol.Encode(&header)},
		{"balances.1.msgpack", protocol.Encode(&chunk1)},
	}, addr
}

func tmpHoleRestore(t *testing.T, name string, label string, file []tmpHoleSection) (*Ledger, CatchpointCatchupAccessor) {
	log := logging.TestingLog(t)
	genesisInitState, _ := ledgertesting.GenerateInitState(t, protocol.ConsensusCurrentVersion, 100)
	l, err := OpenLedger(log, fmt.Sprintf("%s-%s-%d", t.Name(), name, crypto.RandUint64()), true, genesisInitState, config.GetDefaultLocal())
	require.NoError(t, err)
	accessor := MakeCatchpointCatchupAccessor(l, log)
	ctx := context.Background()
	require.NoError(t, accessor.ResetStagingBalances(ctx, true))
	if label != "" {
		require.NoError(t, accessor.SetLabel(ctx, label))
	}
	var progress CatchpointCatchupAccessorProgress
	for _, s := range file {
		if perr := accessor.ProcessStagingBalances(ctx, s.name, s.data, &progress); perr != nil {
			t.Logf("file %s rejected while processing: %v", name, perr)
			return l, nil
		}
	}
	require.NoError(t, accessor.BuildMerkleTrie(ctx, nil))
	return l, accessor
}

func TestFindingC16PartialRecordNotHashed(t *testing.T) {
	ctx := context.Background()
	var blk bookkeeping.Block
	blk.BlockHeader.Round = 1000
	blk.BlockHeader.CurrentProtocol = protocol.ConsensusCurrentVersion
	blockDigest := blk.Digest()

	honest, addr := tmpHoleFile(false)
	lp, producer := tmpHoleRestore(t, "honest", "", honest)
	defer lp.Close()
	balancesHash, spHash, oaHash, orpHash, totals, err := producer.GetVerifyData(ctx)
	require.NoError(t, err)
	label := ledgercore.MakeLabel(ledgercore.MakeCatchpointLabelMakerCurrent(1000, &blockDigest, &balancesHash, totals, &spHash, &oaHash, &orpHash))

	tampered, _ := tmpHoleFile(true)
	lv, victim := tmpHoleRestore(t, "victim", label, tampered)
	defer lv.Close()
	if victim == nil {
		return // the tampered file was rejected while it was processed
	}
	err = victim.VerifyCatchpoint(ctx, &blk)
	t.Logf("VerifyCatchpoint on tampered file: %v", err)
	if err == nil {
		require.NoError(t, victim.(*catchpointCatchupAccessorImpl).finishBalances(ctx))
		ad, _, err := lv.LookupWithoutRewards(0, addr)
		require.NoError(t, err)
		t.Logf("BASE HOLE: tampered file accepted; restored balance of the account = %d (honest 5000000)", ad.MicroAlgos.Raw)
		t.Fail()
	}
}

// Variant: an account that exists only as a trailing partial record (never completed) is stored without
// ever being hashed, so the honest label still matches.
func TestFindingC16DanglingPartialRecord(t *testing.T) {
	ctx := context.Background()
	var blk bookkeeping.Block
	blk.BlockHeader.Round = 1000
	blk.BlockHeader.CurrentProtocol = protocol.ConsensusCurrentVersion
	blockDigest := blk.Digest()

	honest, _ := tmpHoleFile(false)
	lp, producer := tmpHoleRestore(t, "honest", "", honest)
	defer lp.Close()
	balancesHash, spHash, oaHash, orpHash, totals, err := producer.GetVerifyData(ctx)
	require.NoError(t, err)
	label := ledgercore.MakeLabel(ledgercore.MakeCatchpointLabelMakerCurrent(1000, &blockDigest, &balancesHash, totals, &spHash, &oaHash, &orpHash))

	// the honest file plus one extra, never completed, record for a brand-new rich account
	extra := basics.Address(crypto.Hash([]byte("extra-account")))
	rich := trackerdb.BaseAccountData{Status: basics.Offline, MicroAlgos: basics.MicroAlgos{Raw: 7_000_000_000_000_000}, UpdateRound: 900}
	tampered, addr := tmpHoleFile(false)
	var chunk CatchpointSnapshotChunkV6
	require.NoError(t, protocol.Decode(tampered[1].data, &chunk))
	chunk.Balances = append(chunk.Balances, encoded.BalanceRecordV6{Address: extra, AccountData: protocol.Encode(&rich), ExpectingMoreEntries: true})
	tampered[1].data = protocol.Encode(&chunk)
	_ = addr

	log := logging.TestingLog(t)
	genesisInitState, _ := ledgertesting.GenerateInitState(t, protocol.ConsensusCurrentVersion, 100)
	lv, err := OpenLedger(log, fmt.Sprintf("%s-victim-%d", t.Name(), crypto.RandUint64()), true, genesisInitState, config.GetDefaultLocal())
	require.NoError(t, err)
	defer lv.Close()
	victim := MakeCatchpointCatchupAccessor(lv, log)
	require.NoError(t, victim.ResetStagingBalances(ctx, true))
	require.NoError(t, victim.SetLabel(ctx, label))
	var progress CatchpointCatchupAccessorProgress
	var perr error
	for _, s := range tampered {
		if perr = victim.ProcessStagingBalances(ctx, s.name, s.data, &progress); perr != nil {
			break
		}
	}
	if perr != nil {
		t.Logf("tampered file rejected while processing: %v", perr)
		return
	}
	require.NoError(t, victim.BuildMerkleTrie(ctx, nil))
	err = victim.VerifyCatchpoint(ctx, &blk)
	t.Logf("VerifyCatchpoint on file with a dangling partial record: %v", err)
	if err == nil {
		t.Logf("BASE HOLE: file with an extra, never hashed account accepted")
		t.Fail()
	}
}
