package merklearray

import (
	"fmt"
	"testing"

	"github.com/algorand/go-algorand/crypto"
)

// probes on the real code (not part of the check): (a) over-long left hint, (b) empty left hint / position shift
func TestVerifC37Probe(t *testing.T) {
	a := make(TestArray, 5)
	for i := range a {
		crypto.RandBytes(a[i][:])
	}
	tree, err := Build(a, crypto.HashFactory{HashType: crypto.Sha512_256})
	if err != nil {
		t.Fatal(err)
	}
	root := tree.Root()
	// honest proof for the last leaf (index 4, even, no right sibling)
	pr, err := tree.Prove([]uint64{4})
	if err != nil {
		t.Fatal(err)
	}
	fmt.Println("honest idx4:", Verify(root, map[uint64]crypto.Hashable{4: a[4]}, pr), "path lens:", func() (ls []int) {
		for _, h := range pr.Path {
			ls = append(ls, len(h))
		}
		return
	}())
	// (b) same proof claimed for index 5
	fmt.Println("claim idx5 with same proof:", Verify(root, map[uint64]crypto.Hashable{5: a[4]}, pr))
	// (a) over-long hint forgery for index 1
	pr1, _ := tree.Prove([]uint64{1})
	h := crypto.HashFactory{HashType: crypto.Sha512_256}.NewHash()
	l0 := crypto.GenericHashObj(h, a[0])
	l1 := crypto.GenericHashObj(h, a[1])
	forged := *pr1
	forged.Path = append([]crypto.GenericDigest{append(append(crypto.GenericDigest{}, l0...), l1...)}, pr1.Path[1:]...)
	var fake TestMessage = TestMessage("FORGED")
	fmt.Println("forged elem at idx1 with 2x-long hint:", Verify(root, map[uint64]crypto.Hashable{1: fake}, &forged))
}
