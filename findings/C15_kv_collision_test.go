// Demonstration of the recorded C15 finding on the real code (replayed by scripts/replay_finding.sh,
// which injects this file into ledger/store/trackerdb through `go test -overlay`; nothing is written
// under /repo). Two different (box name, box value) pairs whose concatenations coincide produce the
// same catchpoint trie leaf.
package trackerdb

import (
	"bytes"
	"testing"

)


func TestVerifFindingC15KvCollision(t *testing.T) {
	prefix := "bx:" + string([]byte{0, 0, 0, 0, 0, 0, 4, 210}) // box key prefix for app 1234
	k1, v1 := prefix+"ab", []byte("c")
	k2, v2 := prefix+"a", []byte("bc")
	h1 := KvHashBuilderV6(k1, v1)
	h2 := KvHashBuilderV6(k2, v2)
	if k1 == k2 && bytes.Equal(v1, v2) {
		t.Fatal("test inputs must differ")
	}
	if bytes.Equal(h1, h2) {
		t.Fatalf("FINDING CONFIRMED: different (box name, value) pairs hash to the same trie leaf %x", h1)
	}
}
