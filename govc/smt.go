package main

import (
	"bytes"
	"context"
	"fmt"
	"os"
	"os/exec"
	"path/filepath"
	"regexp"
	"strings"
	"sync"
	"time"
)

var smtPreamble = func() string {
	var b strings.Builder
	b.WriteString(`(set-logic ALL)
(declare-sort Str 0)
(declare-sort Err 0)
(declare-sort Ifc 0)
(declare-const str_empty Str)
(declare-const err_nil Err)
(declare-const ifc_nil Ifc)
(declare-fun gstr_len (Str) Int)
(declare-fun gstr_bytes (Str) (Array Int Int))
(assert (= (gstr_len str_empty) 0))
`)
	// pow2: exact for 0..128, saturating outside (Go shifts of >= width give 0 after wrap)
	b.WriteString("(define-fun pow2 ((n Int)) Int ")
	for i := 0; i < 128; i++ {
		fmt.Fprintf(&b, "(ite (<= n %d) %s ", i, pow2(i).String())
	}
	b.WriteString(pow2(128).String())
	b.WriteString(strings.Repeat(")", 128))
	b.WriteString(")\n")
	return b.String()
}()

type SolverResult struct {
	Solver string
	Result string // unsat sat unknown timeout error
	Ms     int64
	Model  string
	Raw    string
}

type solverDef struct {
	name string
	args func(timeoutS int, file string) []string
}

var solvers = []solverDef{
	{"z3-new", func(t int, f string) []string { return []string{"z3-new", "-smt2", fmt.Sprintf("-T:%d", t), f} }},
	{"z3", func(t int, f string) []string { return []string{"z3", "-smt2", fmt.Sprintf("-T:%d", t), f} }},
	{"cvc5", func(t int, f string) []string {
		return []string{"cvc5", fmt.Sprintf("--tlimit=%d", t*1000), "--lang=smt2", f}
	}},
}

// buildQuery renders the SMT-LIB text of an obligation. negate=true asks for a counterexample of the
// goal (unsat = discharged); negate=false asks whether pc ∧ goal is satisfiable (vacuity covers).
func buildQuery(o *Obligation, negate bool, withModel bool) string {
	var b strings.Builder
	if withModel {
		b.WriteString("(set-option :produce-models true)\n")
	}
	b.WriteString(smtPreamble)
	c := o.Ctx
	for _, d := range c.sorts.decls {
		b.WriteString(d)
		b.WriteByte('\n')
	}
	for _, d := range c.decls {
		b.WriteString(d)
		b.WriteByte('\n')
	}
	for _, a := range c.axioms {
		fmt.Fprintf(&b, "(assert %s)\n", a)
	}
	if !o.NoQAxioms {
		for _, a := range c.qaxioms {
			fmt.Fprintf(&b, "(assert %s)\n", a)
		}
	}
	if !o.NoFAxioms {
		for _, a := range c.faxioms {
			fmt.Fprintf(&b, "(assert %s)\n", a)
		}
	}
	for _, g := range c.globalFacts() {
		fmt.Fprintf(&b, "(assert %s)\n", g)
	}
	for _, p := range o.PC {
		fmt.Fprintf(&b, "(assert %s)\n", p)
	}
	for _, p := range o.Extra {
		fmt.Fprintf(&b, "(assert %s)\n", p)
	}
	if negate {
		fmt.Fprintf(&b, "(assert (not %s))\n", o.Goal)
	} else if o.Goal != "" {
		fmt.Fprintf(&b, "(assert %s)\n", o.Goal)
	}
	b.WriteString("(check-sat)\n")
	if withModel {
		var names []string
		for _, in := range c.inputs {
			names = append(names, in.Term)
		}
		for _, out := range o.Outputs {
			if !strings.ContainsAny(out.Term, "() ") {
				names = append(names, out.Term)
			}
		}
		// canonical zero constants of the uninterpreted sorts (to recognise them in the model)
		names = append(names, "str_empty", "err_nil", "ifc_nil")
		for n := range c.sorts.declared {
			if strings.HasPrefix(n, "BA") && !strings.ContainsAny(n, "_.") {
				names = append(names, n+".zero")
			}
		}
		if len(names) > 0 {
			fmt.Fprintf(&b, "(get-value (%s))\n", strings.Join(names, " "))
		}
	}
	return b.String()
}

func runSolver(ctx context.Context, s solverDef, file string, timeoutS int) SolverResult {
	args := s.args(timeoutS, file)
	cctx, cancel := context.WithTimeout(ctx, time.Duration(timeoutS+2)*time.Second)
	defer cancel()
	cmd := exec.CommandContext(cctx, args[0], args[1:]...)
	var out bytes.Buffer
	cmd.Stdout = &out
	cmd.Stderr = &out
	t0 := time.Now()
	err := cmd.Run()
	ms := time.Since(t0).Milliseconds()
	raw := out.String()
	first := strings.TrimSpace(strings.SplitN(raw, "\n", 2)[0])
	r := SolverResult{Solver: s.name, Ms: ms, Raw: raw}
	switch {
	case first == "unsat":
		r.Result = "unsat"
	case first == "sat":
		r.Result = "sat"
		if k := strings.Index(raw, "\n"); k >= 0 {
			r.Model = strings.TrimSpace(raw[k+1:])
		}
	case first == "unknown":
		r.Result = "unknown"
	case first == "timeout" || strings.Contains(raw, "timeout") || cctx.Err() != nil:
		r.Result = "timeout"
	default:
		if ctx.Err() != nil {
			r.Result = "cancelled"
		} else {
			r.Result = "error"
			_ = err
		}
	}
	return r
}

// discharge races the solvers on one query. It returns the first definite answer, or the list of
// indefinite ones.
func discharge(query string, dir, name string, timeoutS int, all bool) (SolverResult, []SolverResult) {
	file := filepath.Join(dir, sanitizeFile(name)+".smt2")
	if err := os.WriteFile(file, []byte(query), 0o644); err != nil {
		return SolverResult{Result: "error", Raw: err.Error()}, nil
	}
	// performance hint (advisory only): the solver that discharged this obligation last time goes first
	if h := solverHints[name]; h != "" && !all {
		for _, s := range solvers {
			if s.name == h {
				r := runSolver(context.Background(), s, file, timeoutS)
				if r.Result == "unsat" || r.Result == "sat" {
					return r, []SolverResult{r}
				}
			}
		}
	}
	// fast path: z3-new alone with a short limit
	if !all {
		quick := 3
		if timeoutS < quick {
			quick = timeoutS
		}
		r := runSolver(context.Background(), solvers[0], file, quick)
		if r.Result == "unsat" || r.Result == "sat" {
			return r, []SolverResult{r}
		}
	}
	ctx, cancel := context.WithCancel(context.Background())
	defer cancel()
	ch := make(chan SolverResult, len(solvers))
	var wg sync.WaitGroup
	for _, s := range solvers {
		wg.Add(1)
		go func(s solverDef) {
			defer wg.Done()
			ch <- runSolver(ctx, s, file, timeoutS)
		}(s)
	}
	go func() { wg.Wait(); close(ch) }()
	var results []SolverResult
	var winner *SolverResult
	for r := range ch {
		results = append(results, r)
		if (r.Result == "unsat" || r.Result == "sat") && winner == nil {
			rr := r
			winner = &rr
			if !all {
				cancel()
			}
		}
	}
	if winner != nil {
		return *winner, results
	}
	best := SolverResult{Result: "unknown"}
	if len(results) > 0 {
		best = results[0]
		for _, r := range results {
			if r.Result == "unknown" {
				best = r
			}
		}
	}
	return best, results
}

// solverHints maps obligation names to the solver that should be tried first (expected/<id>.hints).
var solverHints = map[string]string{}

var condDeclRe = regexp.MustCompile(`^\(define-fun ((?:c|case|guard)![0-9]+) \(\) Bool `)

// splitDischarge retries an undischarged obligation as a case split on one of the branch conditions
// of the function (the named Bool definitions c!N / case!N / guard!N): PC ∧ c ⊢ G and PC ∧ ¬c ⊢ G.
// Both halves unsat means the obligation holds; merged (ite) states with nonlinear arithmetic are
// often only tractable this way.
func splitDischarge(o *Obligation, dir string, timeoutS int) (SolverResult, bool) {
	var conds []string
	for _, d := range o.Ctx.decls {
		if m := condDeclRe.FindStringSubmatch(d); m != nil {
			conds = append(conds, m[1])
		}
	}
	if len(conds) > 4 {
		conds = conds[len(conds)-4:]
	}
	var total int64
	for i := len(conds) - 1; i >= 0; i-- {
		ok := true
		solver := ""
		for k, extra := range []string{conds[i], "(not " + conds[i] + ")"} {
			o2 := *o
			o2.Extra = []string{extra}
			r, _ := discharge(buildQuery(&o2, true, false), dir, fmt.Sprintf("%s-split%d-%d", o.Name, i, k), timeoutS, false)
			total += r.Ms
			if r.Result != "unsat" {
				ok = false
				break
			}
			solver = r.Solver
		}
		if ok {
			return SolverResult{Solver: solver + "+split(" + conds[i] + ")", Result: "unsat", Ms: total}, true
		}
	}
	return SolverResult{}, false
}

// quickSolve runs z3-new alone with a short limit (vacuity guards: only `unsat` matters).
func quickSolve(query string, dir, name string, timeoutS int) SolverResult {
	file := filepath.Join(dir, sanitizeFile(name)+".smt2")
	if err := os.WriteFile(file, []byte(query), 0o644); err != nil {
		return SolverResult{Result: "error", Raw: err.Error()}
	}
	return runSolver(context.Background(), solvers[0], file, timeoutS)
}

func sanitizeFile(s string) string {
	r := strings.NewReplacer("/", "_", "#", "-", ":", "-", "[", "_", "]", "_", "@", "_", ",", "_", " ", "_", "*", "P", "(", "_", ")", "_")
	s = r.Replace(s)
	if len(s) > 150 {
		s = s[:150]
	}
	return s
}
