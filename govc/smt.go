package main

import (
	"bytes"
	"context"
	"fmt"
	"os"
	"os/exec"
	"path/filepath"
	"regexp"
	"strings"
	"sync"
	"time"
)

var smtPreamble = func() string {
	var b strings.Builder
	b.WriteString(`(set-logic ALL)
(declare-sort Str 0)
(declare-sort Err 0)
(declare-sort Ifc 0)
(declare-const str_empty Str)
(declare-const err_nil Err)
(declare-const ifc_nil Ifc)
(declare-fun gstr_len (Str) Int)
(declare-fun gstr_bytes (Str) (Array Int Int))
(assert (= (gstr_len str_empty) 0))
`)
	// pow2: exact for 0..128, saturating outside (Go shifts of >= width give 0 after wrap)
	b.WriteString("(define-fun pow2 ((n Int)) Int ")
	for i := 0; i < 128; i++ {
		fmt.Fprintf(&b, "(ite (<= n %d) %s ", i, pow2(i).String())
	}
	b.WriteString(pow2(128).String())
	b.WriteString(strings.Repeat(")", 128))
	b.WriteString(")\n")
	return b.String()
}()

type SolverResult struct {
	Solver string
	Result string // unsat sat unknown timeout error
	Ms     int64
	Model  string
	Raw    string
}

type solverDef struct {
	name string
	args func(timeoutS int, file string) []string
}

var solvers = []solverDef{
	{"z3-new", func(t int, f string) []string { return []string{"z3-new", "-smt2", fmt.Sprintf("-T:%d", t), f} }},
	{"z3", func(t int, f string) []string { return []string{"z3", "-smt2", fmt.Sprintf("-T:%d", t), f} }},
	{"cvc5", func(t int, f string) []string {
		return []string{"cvc5", fmt.Sprintf("--tlimit=%d", t*1000), "--lang=smt2", f}
	}},
}

// buildQuery renders the SMT-LIB text of an obligation. negate=true asks for a counterexample of the
// goal (unsat = discharged); negate=false asks whether pc ∧ goal is satisfiable (vacuity covers).
func buildQuery(o *Obligation, negate bool, withModel bool) string {
	var b strings.Builder
	if withModel {
		b.WriteString("(set-option :produce-models true)\n")
	}
	b.WriteString(smtPreamble)
	c := o.Ctx
	if o.Focus {
		goalLeaves := c.leavesOf(o.Goal + " " + strings.Join(o.Extra, " "))
		o2 := *o
		o2.Focus = false
		o2.PC = nil
		for _, p := range o.PC {
			if c.leavesWithin(p, goalLeaves) {
				o2.PC = append(o2.PC, p)
			}
		}
		o = &o2
	}
	for _, d := range c.sorts.decls {
		b.WriteString(d)
		b.WriteByte('\n')
	}
	for _, d := range c.decls {
		b.WriteString(d)
		b.WriteByte('\n')
	}
	var cone map[string]bool
	if !o.Full {
		cone = c.coneOf(o)
	}
	for _, a := range c.axioms {
		if cone != nil && !c.inCone(a, cone) {
			continue
		}
		fmt.Fprintf(&b, "(assert %s)\n", a)
	}
	if !o.NoQAxioms {
		for _, a := range c.qaxioms {
			fmt.Fprintf(&b, "(assert %s)\n", a)
		}
	}
	if !o.NoFAxioms {
		for _, a := range c.faxioms {
			fmt.Fprintf(&b, "(assert %s)\n", a)
		}
	}
	for _, g := range c.globalFacts() {
		fmt.Fprintf(&b, "(assert %s)\n", g)
	}
	for _, p := range o.PC {
		fmt.Fprintf(&b, "(assert %s)\n", p)
	}
	for _, p := range o.Extra {
		fmt.Fprintf(&b, "(assert %s)\n", p)
	}
	if negate {
		fmt.Fprintf(&b, "(assert (not %s))\n", o.Goal)
	} else if o.Goal != "" {
		fmt.Fprintf(&b, "(assert %s)\n", o.Goal)
	}
	b.WriteString("(check-sat)\n")
	if withModel {
		var names []string
		for _, in := range c.inputs {
			names = append(names, in.Term)
		}
		for _, out := range o.Outputs {
			if !strings.ContainsAny(out.Term, "() ") {
				names = append(names, out.Term)
			}
		}
		// canonical zero constants of the uninterpreted sorts (to recognise them in the model)
		names = append(names, "str_empty", "err_nil", "ifc_nil")
		for n := range c.sorts.declared {
			if strings.HasPrefix(n, "BA") && !strings.ContainsAny(n, "_.") {
				names = append(names, n+".zero")
			}
		}
		if len(names) > 0 {
			fmt.Fprintf(&b, "(get-value (%s))\n", strings.Join(names, " "))
		}
	}
	return b.String()
}

func runSolver(ctx context.Context, s solverDef, file string, timeoutS int) SolverResult {
	args := s.args(timeoutS, file)
	cctx, cancel := context.WithTimeout(ctx, time.Duration(timeoutS+2)*time.Second)
	defer cancel()
	cmd := exec.CommandContext(cctx, args[0], args[1:]...)
	var out bytes.Buffer
	cmd.Stdout = &out
	cmd.Stderr = &out
	t0 := time.Now()
	err := cmd.Run()
	ms := time.Since(t0).Milliseconds()
	raw := out.String()
	first := strings.TrimSpace(strings.SplitN(raw, "\n", 2)[0])
	r := SolverResult{Solver: s.name, Ms: ms, Raw: raw}
	switch {
	case first == "unsat":
		r.Result = "unsat"
	case first == "sat":
		r.Result = "sat"
		if k := strings.Index(raw, "\n"); k >= 0 {
			r.Model = strings.TrimSpace(raw[k+1:])
		}
	case first == "unknown":
		r.Result = "unknown"
	case first == "timeout" || strings.Contains(raw, "timeout") || cctx.Err() != nil:
		r.Result = "timeout"
	default:
		if ctx.Err() != nil {
			r.Result = "cancelled"
		} else {
			r.Result = "error"
			_ = err
		}
	}
	return r
}

// discharge races the solvers on one query. It returns the first definite answer, or the list of
// indefinite ones.
func discharge(query string, dir, name string, timeoutS int, all bool) (SolverResult, []SolverResult) {
	file := filepath.Join(dir, sanitizeFile(name)+".smt2")
	if err := os.WriteFile(file, []byte(query), 0o644); err != nil {
		return SolverResult{Result: "error", Raw: err.Error()}, nil
	}
	// performance hint (advisory only): the solver that discharged this obligation last time goes first
	if h := solverHints[name]; h != "" && !all {
		for _, s := range solvers {
			if s.name == h {
				r := runSolver(context.Background(), s, file, timeoutS)
				if r.Result == "unsat" || r.Result == "sat" {
					return r, []SolverResult{r}
				}
			}
		}
	}
	// fast path: z3-new alone with a short limit
	if !all {
		quick := 3
		if timeoutS < quick {
			quick = timeoutS
		}
		r := runSolver(context.Background(), solvers[0], file, quick)
		if r.Result == "unsat" || r.Result == "sat" {
			return r, []SolverResult{r}
		}
	}
	ctx, cancel := context.WithCancel(context.Background())
	defer cancel()
	ch := make(chan SolverResult, len(solvers))
	var wg sync.WaitGroup
	for _, s := range solvers {
		wg.Add(1)
		go func(s solverDef) {
			defer wg.Done()
			ch <- runSolver(ctx, s, file, timeoutS)
		}(s)
	}
	go func() { wg.Wait(); close(ch) }()
	var results []SolverResult
	var winner *SolverResult
	for r := range ch {
		results = append(results, r)
		if (r.Result == "unsat" || r.Result == "sat") && winner == nil {
			rr := r
			winner = &rr
			if !all {
				cancel()
			}
		}
	}
	if winner != nil {
		return *winner, results
	}
	best := SolverResult{Result: "unknown"}
	if len(results) > 0 {
		best = results[0]
		for _, r := range results {
			if r.Result == "unknown" {
				best = r
			}
		}
	}
	return best, results
}

// solverHints maps obligation names to the solver that should be tried first (expected/<id>.hints).
var solverHints = map[string]string{}

var condDeclRe = regexp.MustCompile(`^\(define-fun ((?:c|case|guard)![0-9]+) \(\) Bool `)

// splitDischarge retries an undischarged obligation as a case split on one of the branch conditions
// of the function (the named Bool definitions c!N / case!N / guard!N): PC ∧ c ⊢ G and PC ∧ ¬c ⊢ G.
// Both halves unsat means the obligation holds; merged (ite) states with nonlinear arithmetic are
// often only tractable this way.
func splitDischarge(o *Obligation, dir string, timeoutS int, focusOnly bool) (SolverResult, bool) {
	// one case of a split: the focused query first (short), then the ordinary one
	caseOf := func(extra, tag string) SolverResult {
		o2 := *o
		o2.Extra = append(append([]string(nil), o.Extra...), extra)
		if len(o.PC) > 40 {
			of := o2
			of.Focus = true
			if r := quickSolve(buildQuery(&of, true, false), dir, o.Name+"-"+tag+"-focus", timeoutS); r.Result == "unsat" {
				r.Solver += "(focused)"
				return r
			}
		}
		if focusOnly {
			return SolverResult{Result: "unknown"}
		}
		r, _ := discharge(buildQuery(&o2, true, false), dir, o.Name+"-"+tag, timeoutS, false)
		return r
	}
	// (a) the join the obligation sits behind: the last path conjunct that is a disjunction of named
	// branch conditions, one case per disjunct (complete: the disjunction is itself assumed)
	for i := len(o.PC) - 1; i >= 0 && i >= len(o.PC)-60; i-- {
		p := o.PC[i]
		if !strings.HasPrefix(p, "(or ") {
			continue
		}
		alts := strings.Fields(strings.TrimSuffix(strings.TrimPrefix(p, "(or "), ")"))
		okShape := len(alts) >= 2 && len(alts) <= 8
		for _, a := range alts {
			if strings.ContainsAny(a, "()") {
				okShape = false
			}
		}
		if !okShape {
			continue
		}
		var total int64
		all := true
		solver := ""
		for k, a := range alts {
			r := caseOf(a, fmt.Sprintf("join%d", k))
			total += r.Ms
			if r.Result != "unsat" {
				all = false
				break
			}
			solver = r.Solver
		}
		if all {
			return SolverResult{Solver: solver + "+split(join)", Result: "unsat", Ms: total}, true
		}
		break
	}
	if focusOnly {
		return SolverResult{}, false
	}
	// (b) a binary split on one of the last branch conditions the obligation depends on
	cone := o.Ctx.coneOf(o)
	var conds []string
	for _, d := range o.Ctx.decls {
		if m := condDeclRe.FindStringSubmatch(d); m != nil && cone[m[1]] {
			conds = append(conds, m[1])
		}
	}
	if len(conds) > 4 {
		conds = conds[len(conds)-4:]
	}
	var total int64
	for i := len(conds) - 1; i >= 0; i-- {
		ok := true
		solver := ""
		for k, extra := range []string{conds[i], "(not " + conds[i] + ")"} {
			r := caseOf(extra, fmt.Sprintf("split%d-%d", i, k))
			total += r.Ms
			if r.Result != "unsat" {
				ok = false
				break
			}
			solver = r.Solver
		}
		if ok {
			return SolverResult{Solver: solver + "+split(" + conds[i] + ")", Result: "unsat", Ms: total}, true
		}
	}
	return SolverResult{}, false
}

// quickSolve runs z3-new alone with a short limit (vacuity guards: only `unsat` matters).
func quickSolve(query string, dir, name string, timeoutS int) SolverResult {
	file := filepath.Join(dir, sanitizeFile(name)+".smt2")
	if err := os.WriteFile(file, []byte(query), 0o644); err != nil {
		return SolverResult{Result: "error", Raw: err.Error()}
	}
	return runSolver(context.Background(), solvers[0], file, timeoutS)
}

func sanitizeFile(s string) string {
	r := strings.NewReplacer("/", "_", "#", "-", ":", "-", "[", "_", "]", "_", "@", "_", ",", "_", " ", "_", "*", "P", "(", "_", ")", "_")
	s = r.Replace(s)
	if len(s) > 150 {
		s = s[:150]
	}
	return s
}


// ---- cone of influence -------------------------------------------------------------------------
// The range facts in c.axioms are collected over the whole symbolic execution of a function, so an
// obligation raised early would otherwise carry facts about terms defined long after it (whose macro
// expansion, nested ite-merges of later states, can dominate solver time). A query built without
// Obligation.Full keeps only the facts all of whose declared names are reachable from the path
// condition, the goal and the retained axioms through definition bodies. Leaving assumptions out is
// sound for `unsat`; a `sat` answer of a pruned query is re-asked on the full one before it is believed.

var smtTokRe = regexp.MustCompile(`[^\s()]+`)

type declIndex struct {
	n     int
	names map[string]int // declared name -> index into decls
	refs  [][]string     // declared names mentioned by each decl (other than itself)
	axRef map[string][]string
	leafMemo map[string]map[string]bool
}

var declIndexMu sync.Mutex

func (c *Ctx) index() *declIndex {
	declIndexMu.Lock()
	defer declIndexMu.Unlock()
	if c.dIndex != nil && c.dIndex.n == len(c.decls) {
		return c.dIndex
	}
	ix := &declIndex{n: len(c.decls), names: map[string]int{}, axRef: map[string][]string{}}
	toks := make([][]string, len(c.decls))
	for i, d := range c.decls {
		t := smtTokRe.FindAllString(d, -1)
		toks[i] = t
		if len(t) >= 2 && (strings.HasPrefix(t[0], "define-") || strings.HasPrefix(t[0], "declare-")) {
			ix.names[t[1]] = i
		}
	}
	ix.refs = make([][]string, len(c.decls))
	for i, t := range toks {
		seen := map[string]bool{}
		for k, w := range t {
			if k < 2 {
				continue
			}
			if _, ok := ix.names[w]; ok && !seen[w] {
				seen[w] = true
				ix.refs[i] = append(ix.refs[i], w)
			}
		}
	}
	c.dIndex = ix
	return ix
}

func (c *Ctx) coneOf(o *Obligation) map[string]bool {
	ix := c.index()
	cone := map[string]bool{}
	var work []string
	add := func(text string) {
		for _, w := range smtTokRe.FindAllString(text, -1) {
			if _, ok := ix.names[w]; ok && !cone[w] {
				cone[w] = true
				work = append(work, w)
			}
		}
	}
	for _, p := range o.PC {
		add(p)
	}
	for _, p := range o.Extra {
		add(p)
	}
	add(o.Goal)
	if !o.NoQAxioms {
		for _, a := range c.qaxioms {
			add(a)
		}
	}
	if !o.NoFAxioms {
		for _, a := range c.faxioms {
			add(a)
		}
	}
	for _, g := range c.globalFacts() {
		add(g)
	}
	for len(work) > 0 {
		w := work[len(work)-1]
		work = work[:len(work)-1]
		for _, r := range ix.refs[ix.names[w]] {
			if !cone[r] {
				cone[r] = true
				work = append(work, r)
			}
		}
	}
	return cone
}

func (c *Ctx) inCone(a string, cone map[string]bool) bool {
	ix := c.index()
	declIndexMu.Lock()
	refs, ok := ix.axRef[a]
	if !ok {
		seen := map[string]bool{}
		for _, w := range smtTokRe.FindAllString(a, -1) {
			if _, d := ix.names[w]; d && !seen[w] {
				seen[w] = true
				refs = append(refs, w)
			}
		}
		ix.axRef[a] = refs
	}
	declIndexMu.Unlock()
	for _, r := range refs {
		if !cone[r] {
			return false
		}
	}
	return true
}


// ---- focused queries ------------------------------------------------------------------------------
// With Obligation.Focus the path condition keeps only the conjuncts that speak exclusively about
// declared (not defined) symbols the goal itself depends on through definition bodies. For a long
// function this leaves out the facts about everything the goal never reads (results of appends, of
// reads from other tables, ...). Assumptions are only ever removed, so `unsat` is still a proof; any
// other answer of a focused query is discarded and the unfocused stages run.

func (ix *declIndex) leaves(c *Ctx, name string) map[string]bool {
	if ix.leafMemo == nil {
		ix.leafMemo = map[string]map[string]bool{}
	}
	if m, ok := ix.leafMemo[name]; ok {
		return m
	}
	m := map[string]bool{}
	ix.leafMemo[name] = m // cycles do not occur (definitions refer to earlier names only)
	i := ix.names[name]
	if strings.HasPrefix(c.decls[i], "(declare-") {
		m[name] = true
		return m
	}
	for _, r := range ix.refs[i] {
		for l := range ix.leaves(c, r) {
			m[l] = true
		}
	}
	return m
}

func (c *Ctx) leavesOf(text string) map[string]bool {
	ix := c.index()
	declIndexMu.Lock()
	defer declIndexMu.Unlock()
	out := map[string]bool{}
	for _, w := range smtTokRe.FindAllString(text, -1) {
		if _, ok := ix.names[w]; ok {
			for l := range ix.leaves(c, w) {
				out[l] = true
			}
		}
	}
	return out
}

func (c *Ctx) leavesWithin(text string, within map[string]bool) bool {
	ix := c.index()
	declIndexMu.Lock()
	defer declIndexMu.Unlock()
	for _, w := range smtTokRe.FindAllString(text, -1) {
		if _, ok := ix.names[w]; ok {
			for l := range ix.leaves(c, w) {
				if !within[l] {
					return false
				}
			}
		}
	}
	return true
}
