package main

// replayOnRealCode runs the real function on the model's inputs (go test -overlay) and decides
// whether the real code violates the failed clause. Filled in by replay_impl.go.
func replayOnRealCode(w *World, root string, rep *OblReport, workDir string) (outcome, detail string) {
	return replayImpl(w, root, rep, workDir)
}
