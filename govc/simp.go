package main

import (
	"strings"
)

// ---- datatype-aware term simplification -----------------------------------------------------------
// Struct, pointer, slice and map values are SMT datatypes; an update of one field rebuilds the value
// with the constructor and copies every other field through its accessor, and a join of two branches
// used to wrap whole values in an ite. Long functions (a dozen joins, each after an update of one
// field of the receiver) then give the solver deeply nested ite/constructor/accessor terms for a field
// that no branch ever touched. Two identities of the theory of datatypes, applied when a term is named
// (Ctx.define) and when states are joined (mergeStates), keep such a field syntactically the same term:
//
//	acc_i(mk(a_1..a_n)) = a_i                         (accessor of a constructor term)
//	ite(c, mk(a..), mk(b..)) = mk(ite(c,a_1,b_1)..)   (join of two constructor terms, field-wise)
//
// Both are valid in every model, so obligations keep their meaning; only the term shape changes.

type sx struct {
	atom string
	kids []*sx
}

func (n *sx) String() string {
	if n.kids == nil {
		return n.atom
	}
	var b strings.Builder
	n.write(&b)
	return b.String()
}

func (n *sx) write(b *strings.Builder) {
	if n.kids == nil {
		b.WriteString(n.atom)
		return
	}
	b.WriteByte('(')
	for i, k := range n.kids {
		if i > 0 {
			b.WriteByte(' ')
		}
		k.write(b)
	}
	b.WriteByte(')')
}

func (n *sx) head() string {
	if n.kids != nil && len(n.kids) > 0 && n.kids[0].kids == nil {
		return n.kids[0].atom
	}
	return ""
}

// parseSx parses one S-expression; ok is false if the text is not exactly one well-formed term
// (string literals with spaces or bars do not occur in the generator's terms; if they do, no
// simplification is attempted).
func parseSx(s string) (*sx, bool) {
	if strings.ContainsAny(s, "\"|;") {
		return nil, false
	}
	pos := 0
	var parse func() (*sx, bool)
	skip := func() {
		for pos < len(s) && (s[pos] == ' ' || s[pos] == '\n' || s[pos] == '\t') {
			pos++
		}
	}
	parse = func() (*sx, bool) {
		skip()
		if pos >= len(s) {
			return nil, false
		}
		if s[pos] == '(' {
			pos++
			n := &sx{kids: []*sx{}}
			for {
				skip()
				if pos >= len(s) {
					return nil, false
				}
				if s[pos] == ')' {
					pos++
					return n, true
				}
				k, ok := parse()
				if !ok {
					return nil, false
				}
				n.kids = append(n.kids, k)
			}
		}
		if s[pos] == ')' {
			return nil, false
		}
		st := pos
		for pos < len(s) && s[pos] != ' ' && s[pos] != '(' && s[pos] != ')' && s[pos] != '\n' && s[pos] != '\t' {
			pos++
		}
		return &sx{atom: s[st:pos]}, true
	}
	n, ok := parse()
	if !ok {
		return nil, false
	}
	skip()
	if pos != len(s) {
		return nil, false
	}
	return n, true
}

type accInfo struct {
	ctor string
	idx  int
}

type simpState struct {
	parsedSortDecls int
	acc             map[string]accInfo // accessor -> constructor and argument position
	arity           map[string]int     // constructor -> number of arguments
	defs            map[string]*sx     // named term -> simplified body
}

func (c *Ctx) simpInit() *simpState {
	if c.simp == nil {
		c.simp = &simpState{acc: map[string]accInfo{}, arity: map[string]int{}, defs: map[string]*sx{}}
	}
	ss := c.simp
	for ; ss.parsedSortDecls < len(c.sorts.decls); ss.parsedSortDecls++ {
		d := c.sorts.decls[ss.parsedSortDecls]
		if !strings.HasPrefix(d, "(declare-datatypes") {
			continue
		}
		n, ok := parseSx(d)
		if !ok || len(n.kids) != 3 {
			continue
		}
		// (declare-datatypes ((N 0)) (((mk_N (acc sort) ...))))  -- one type, one constructor
		if len(n.kids[1].kids) != 1 || len(n.kids[2].kids) != 1 || len(n.kids[2].kids[0].kids) != 1 {
			continue
		}
		ctor := n.kids[2].kids[0].kids[0]
		if ctor.kids == nil || ctor.head() == "" {
			continue
		}
		name := ctor.head()
		ss.arity[name] = len(ctor.kids) - 1
		for i, a := range ctor.kids[1:] {
			if a.kids != nil && len(a.kids) == 2 && a.kids[0].kids == nil {
				ss.acc[a.kids[0].atom] = accInfo{ctor: name, idx: i}
			}
		}
	}
	return ss
}

// resolve follows names to their definition until a constructor or ite term (or nothing more) is found.
func (ss *simpState) resolve(n *sx) *sx {
	for i := 0; i < 64 && n != nil && n.kids == nil; i++ {
		d, ok := ss.defs[n.atom]
		if !ok {
			return n
		}
		n = d
	}
	return n
}

// project returns acc(x) simplified, or nil if x is not (an ite tree of) constructor terms.
func (ss *simpState) project(ai accInfo, x *sx, budget *int) *sx {
	if *budget <= 0 {
		return nil
	}
	*budget--
	r := ss.resolve(x)
	if r == nil || r.kids == nil {
		return nil
	}
	switch {
	case r.head() == ai.ctor && len(r.kids) == ss.arity[ai.ctor]+1:
		return r.kids[1+ai.idx]
	case r.head() == "ite" && len(r.kids) == 4:
		a := ss.project(ai, r.kids[2], budget)
		if a == nil {
			return nil
		}
		b := ss.project(ai, r.kids[3], budget)
		if b == nil {
			return nil
		}
		if a.String() == b.String() {
			return a
		}
		return &sx{kids: []*sx{{atom: "ite"}, r.kids[1], a, b}}
	}
	return nil
}

func (ss *simpState) simplify(n *sx) *sx {
	if n.kids == nil {
		return n
	}
	changed := false
	kids := make([]*sx, len(n.kids))
	for i, k := range n.kids {
		kids[i] = ss.simplify(k)
		if kids[i] != k {
			changed = true
		}
	}
	out := n
	if changed {
		out = &sx{kids: kids}
	}
	if len(kids) == 2 && kids[0].kids == nil {
		if ai, ok := ss.acc[kids[0].atom]; ok {
			budget := 24
			if r := ss.project(ai, kids[1], &budget); r != nil {
				return r
			}
		}
	}
	if out.head() == "ite" && len(kids) == 4 && kids[2].String() == kids[3].String() {
		return kids[2]
	}
	return out
}

// simplifyTerm applies the accessor-of-constructor identity inside a term.
func (c *Ctx) simplifyTerm(t string) string {
	if !strings.Contains(t, ".") { // every accessor name contains a dot
		return t
	}
	ss := c.simpInit()
	n, ok := parseSx(t)
	if !ok {
		return t
	}
	r := ss.simplify(n)
	if r == n {
		return t
	}
	return r.String()
}

// recordDef remembers the body of a named term so that later accessors can see through the name.
func (c *Ctx) recordDef(name, body string) {
	ss := c.simpInit()
	if n, ok := parseSx(body); ok {
		if n.kids != nil && (strings.HasPrefix(n.head(), "mk_") || n.head() == "ite") || n.kids == nil {
			ss.defs[name] = n
		}
	}
}

// mergeTerms is the join of the values `terms` under the branch conditions `deltas` (the last
// alternative is the default): field-wise if every alternative is a term of one constructor.
func (c *Ctx) mergeTerms(deltas []string, terms []string) string {
	same := true
	for _, t := range terms[1:] {
		if t != terms[0] {
			same = false
		}
	}
	if same {
		return terms[0]
	}
	ss := c.simpInit()
	budget := 400
	if r := ss.mergeSx(deltas, terms, &budget); r != "" {
		return r
	}
	return iteChain(deltas, terms)
}

func iteChain(deltas []string, terms []string) string {
	t := terms[len(terms)-1]
	for i := len(terms) - 2; i >= 0; i-- {
		t = ite(deltas[i], terms[i], t)
	}
	return t
}

func (ss *simpState) mergeSx(deltas []string, terms []string, budget *int) string {
	if *budget <= 0 {
		return ""
	}
	*budget--
	var ctor string
	var args [][]*sx
	for _, t := range terms {
		n, ok := parseSx(t)
		if !ok {
			return ""
		}
		r := ss.resolve(n)
		if r == nil || r.kids == nil || !strings.HasPrefix(r.head(), "mk_") {
			return ""
		}
		if ctor == "" {
			ctor = r.head()
		} else if ctor != r.head() {
			return ""
		}
		if ar, ok := ss.arity[ctor]; !ok || ar != len(r.kids)-1 || ar == 0 {
			return ""
		}
		args = append(args, r.kids[1:])
	}
	var b strings.Builder
	b.WriteString("(" + ctor)
	for i := range args[0] {
		col := make([]string, len(terms))
		same := true
		for k := range terms {
			col[k] = args[k][i].String()
			if col[k] != col[0] {
				same = false
			}
		}
		b.WriteByte(' ')
		if same {
			b.WriteString(col[0])
			continue
		}
		if r := ss.mergeSx(deltas, col, budget); r != "" {
			b.WriteString(r)
		} else {
			b.WriteString(iteChain(deltas, col))
		}
	}
	b.WriteByte(')')
	return b.String()
}
