package main

import (
	"fmt"
	"go/types"
	"regexp"
	"strings"
)

// lemmaObligation turns a stand-alone lemma (a closed spec formula over the contracts' vocabulary)
// into an obligation: the formula must be valid.
//
// The outer universal quantifiers and the implications of the lemma are skolemised here
// (forall xs :: P ==> forall ys :: Q ==> C   becomes   constants xs, ys; premises P, Q; goal C), so that
// instantiation hints can mention the bound names. A lemma may end with
//
//	by inst i := e1, e2 ; j := e3
//
// which adds, for every universally quantified premise conjunct whose bound variable is called i, the
// ground instances at e1 and e2 (solvers do not find these byte-offset instances unaided).
func lemmaObligation(w *World, specs *Specs, key string) (obls []*Obligation, err error) {
	lm := specs.Lemmas[key]
	if lm == nil {
		return nil, fmt.Errorf("lemma %s not found", key)
	}
	if lm.Axiom {
		return nil, fmt.Errorf("%s is an axiom, not a lemma", lm.Name)
	}
	c := newCtx(w, specs, "lemma")
	var pkg *types.Package
	if p := w.Pkgs[lm.PkgPath]; p != nil {
		pkg = p.Types
	}
	f := &Frame{c: c, top: true, tsubst: map[*types.TypeParam]types.Type{}}
	defer func() {
		if r := recover(); r != nil {
			switch e := r.(type) {
			case specFail:
				err = fmt.Errorf("lemma %s: %s", lm.Name, e.msg)
			case unsupported:
				err = fmt.Errorf("lemma %s: %s", lm.Name, e.msg)
			default:
				panic(r)
			}
		}
	}()
	st := &State{env: map[types.Object]Val{}, gh: map[string]Val{}}
	env := &SpecEnv{names: map[string]Val{}, pkg: pkg, typeArgs: map[string]types.Type{}, st: st}

	// skolemise
	var premises []string
	cur := lm.Expr
	for {
		switch x := cur.(type) {
		case *SQuant:
			if !x.Forall {
				goto done
			}
			for _, v := range x.Vars {
				if v.Type == "int" {
					n := c.fresh("sk_"+v.Name, "Int")
					env.names[v.Name] = Val{T: n}
					continue
				}
				t := f.resolveType(env, v.Type)
				n := c.fresh("sk_"+v.Name, c.sorts.SortOf(t))
				env.names[v.Name] = Val{T: n, Ty: t}
				premises = append(premises, c.sorts.TypeInv(n, t, 0)...)
			}
			cur = x.Body
			continue
		case *SBinary:
			if x.Op == "==>" {
				premises = append(premises, f.specBool(st, x.X, env))
				cur = x.Y
				continue
			}
		}
		break
	}
done:
	goal := f.specBool(st, cur, env)
	// instantiation hints
	for _, h := range lm.Insts {
		kv := strings.SplitN(h, ":=", 2)
		if len(kv) != 2 {
			return nil, fmt.Errorf("lemma %s: bad inst hint %q", lm.Name, h)
		}
		vname := strings.TrimSpace(kv[0])
		for _, ts := range splitTop(kv[1]) {
			e, perr := parseSpecExpr(ts)
			if perr != nil {
				return nil, fmt.Errorf("lemma %s: inst hint: %v", lm.Name, perr)
			}
			tv := f.specEval(e, env)
			for _, p := range premises {
				premises = append(premises, instantiateForalls(p, vname, tv.T)...)
			}
		}
	}
	pc := append(append([]string(nil), st.pc...), premises...)
	name := shortKey(lm.PkgPath+".x")
	name = name[:len(name)-1] + "lemma:" + lm.Name
	o := &Obligation{Name: name, Kind: "lemma", Decls: len(c.decls), PC: pc, Goal: goal, Src: lm.Src, Ctx: c, Expect: "unsat"}
	return []*Obligation{o}, nil
}

// instantiateForalls finds the conjuncts of term that are (forall ((v!qN Int)) body) with bound name
// v and returns body[v := inst] for each.
func instantiateForalls(term, v, inst string) []string {
	term = strings.TrimSpace(term)
	args := splitSexpArgs(term)
	if len(args) == 0 {
		return nil
	}
	var out []string
	switch args[0] {
	case "and":
		for _, a := range args[1:] {
			out = append(out, instantiateForalls(a, v, inst)...)
		}
	case "forall":
		if len(args) != 3 {
			return nil
		}
		bs := splitSexpArgs(args[1])
		if len(bs) != 1 {
			return nil
		}
		b := splitSexpArgs(bs[0])
		if len(b) != 2 || b[1] != "Int" || !strings.HasPrefix(b[0], sanitize(v)+"!q") {
			return nil
		}
		re := regexp.MustCompile(`(^|[\s()])` + regexp.QuoteMeta(b[0]) + `($|[\s()])`)
		body := args[2]
		rep := strings.ReplaceAll(inst, "$", "$$")
		for re.MatchString(body) {
			body = re.ReplaceAllString(body, "${1}"+rep+"${2}")
		}
		out = append(out, body)
	}
	return out
}
