package main

import (
	"fmt"
	"go/types"
)

// lemmaObligation turns a stand-alone lemma (a closed spec formula over the contracts' vocabulary)
// into an obligation: the formula must be valid.
func lemmaObligation(w *World, specs *Specs, key string) (obls []*Obligation, err error) {
	lm := specs.Lemmas[key]
	if lm == nil {
		return nil, fmt.Errorf("lemma %s not found", key)
	}
	c := newCtx(w, specs, "lemma")
	var pkg *types.Package
	if p := w.Pkgs[lm.PkgPath]; p != nil {
		pkg = p.Types
	}
	f := &Frame{c: c, top: true, tsubst: map[*types.TypeParam]types.Type{}}
	defer func() {
		if r := recover(); r != nil {
			switch e := r.(type) {
			case specFail:
				err = fmt.Errorf("lemma %s: %s", lm.Name, e.msg)
			case unsupported:
				err = fmt.Errorf("lemma %s: %s", lm.Name, e.msg)
			default:
				panic(r)
			}
		}
	}()
	st := &State{env: map[types.Object]Val{}, gh: map[string]Val{}}
	env := &SpecEnv{names: map[string]Val{}, pkg: pkg, typeArgs: map[string]types.Type{}}
	goal := f.specBool(st, lm.Expr, env)
	o := &Obligation{Name: shortKey(lm.PkgPath+".x")[:len(shortKey(lm.PkgPath+".x"))-1] + "lemma:" + lm.Name, Kind: "lemma", Decls: len(c.decls), PC: st.pc, Goal: goal, Src: lm.Src, Ctx: c, Expect: "unsat"}
	if lm.Axiom {
		return nil, fmt.Errorf("%s is an axiom, not a lemma", lm.Name)
	}
	return []*Obligation{o}, nil
}
