package main

import (
	"fmt"
	"go/ast"
	"go/constant"
	"go/token"
	"go/types"
	"math/big"
	"strings"
)

func pow2(n int) *big.Int { return new(big.Int).Lsh(big.NewInt(1), uint(n)) }

func isUnsigned(t types.Type) bool {
	b, ok := t.Underlying().(*types.Basic)
	return ok && b.Info()&types.IsUnsigned != 0
}
func isInteger(t types.Type) bool {
	b, ok := t.Underlying().(*types.Basic)
	return ok && b.Info()&types.IsInteger != 0
}
func isString(t types.Type) bool {
	b, ok := t.Underlying().(*types.Basic)
	return ok && b.Info()&types.IsString != 0
}
func isBoolean(t types.Type) bool {
	b, ok := t.Underlying().(*types.Basic)
	return ok && b.Info()&types.IsBoolean != 0
}
func isUntyped(t types.Type) bool {
	b, ok := t.(*types.Basic)
	return ok && b.Info()&types.IsUntyped != 0
}

// wrap reduces a mathematical integer term into the range of integer type t.
func wrap(term string, t types.Type) string {
	b, ok := t.Underlying().(*types.Basic)
	if !ok || isUntyped(t) {
		return term
	}
	bits, signed := intBits(b)
	W := pow2(bits).String()
	if !signed {
		return fmt.Sprintf("(mod %s %s)", term, W)
	}
	H := pow2(bits - 1).String()
	return fmt.Sprintf("(- (mod (+ %s %s) %s) %s)", term, H, W, H)
}

// arith encodes a Go binary arithmetic operation on integers of type t (wrap-around semantics).
func (f *Frame) arith(st *State, op token.Token, a, b Val, t types.Type, pos token.Pos) Val {
	t = f.typ(t)
	bt, _ := t.Underlying().(*types.Basic)
	if bt == nil {
		f.unsupported(nil, "arithmetic on non-basic type %v", t)
	}
	if bt.Info()&types.IsString != 0 {
		if op == token.ADD {
			fn := f.c.uf("gstr_concat", []string{"Str", "Str"}, "Str")
			f.c.note("string concatenation is an uninterpreted function (length additive)")
			r := Val{T: fmt.Sprintf("(%s %s %s)", fn, a.T, b.T), Ty: t}
			st.assume(fmt.Sprintf("(= (gstr_len %s) (+ (gstr_len %s) (gstr_len %s)))", r.T, a.T, b.T))
			return r
		}
		f.unsupported(nil, "string op %v", op)
	}
	if bt.Info()&types.IsInteger == 0 {
		// floats etc: opaque
		f.c.note("floating-point arithmetic abstracted to an arbitrary value")
		return f.havoc(st, "flt", t)
	}
	untyped := isUntyped(t)
	bits, signed := intBits(bt)
	W := pow2(bits).String()
	H := pow2(bits - 1).String()
	x, y := a.T, b.T
	var r string
	switch op {
	case token.ADD:
		if untyped {
			r = fmt.Sprintf("(+ %s %s)", x, y)
		} else if !signed {
			r = fmt.Sprintf("(let ((s!s (+ %s %s))) (ite (>= s!s %s) (- s!s %s) s!s))", x, y, W, W)
		} else {
			r = fmt.Sprintf("(let ((s!s (+ %s %s))) (ite (>= s!s %s) (- s!s %s) (ite (< s!s (- %s)) (+ s!s %s) s!s)))", x, y, H, W, H, W)
		}
	case token.SUB:
		if untyped {
			r = fmt.Sprintf("(- %s %s)", x, y)
		} else if !signed {
			r = fmt.Sprintf("(let ((s!s (- %s %s))) (ite (< s!s 0) (+ s!s %s) s!s))", x, y, W)
		} else {
			r = fmt.Sprintf("(let ((s!s (- %s %s))) (ite (>= s!s %s) (- s!s %s) (ite (< s!s (- %s)) (+ s!s %s) s!s)))", x, y, H, W, H, W)
		}
	case token.MUL:
		r = wrap(fmt.Sprintf("(* %s %s)", x, y), t)
	case token.QUO:
		f.panicSite(st, "div0", fmt.Sprintf("(not (= %s 0))", y), pos)
		if !signed {
			r = fmt.Sprintf("(div %s %s)", x, y)
		} else {
			r = wrap(truncDiv(x, y), t)
		}
	case token.REM:
		f.panicSite(st, "div0", fmt.Sprintf("(not (= %s 0))", y), pos)
		if !signed {
			r = fmt.Sprintf("(mod %s %s)", x, y)
		} else {
			r = fmt.Sprintf("(- %s (* %s %s))", x, y, truncDiv(x, y))
		}
	case token.SHL:
		// shift count is unsigned or a non-negative constant (negative signed count panics)
		if bType, ok := b.Ty.(*types.Basic); b.Ty != nil && (!ok || bType.Info()&types.IsUntyped == 0) && !isUnsigned(b.Ty) {
			f.panicSite(st, "negshift", fmt.Sprintf("(>= %s 0)", y), pos)
		}
		r = wrap(fmt.Sprintf("(* %s (pow2 %s))", x, y), t)
	case token.SHR:
		if bType, ok := b.Ty.(*types.Basic); b.Ty != nil && (!ok || bType.Info()&types.IsUntyped == 0) && !isUnsigned(b.Ty) {
			f.panicSite(st, "negshift", fmt.Sprintf("(>= %s 0)", y), pos)
		}
		r = fmt.Sprintf("(div %s (pow2 %s))", x, y)
	case token.AND, token.OR, token.XOR, token.AND_NOT:
		r = f.bitop(st, op, a, b, t, bits, signed)
	default:
		f.unsupported(nil, "binary operator %v", op)
	}
	return f.name("t", Val{T: r, Ty: t})
}

func truncDiv(x, y string) string {
	return fmt.Sprintf("(ite (>= %s 0) (ite (> %s 0) (div %s %s) (- (div %s (- %s)))) (ite (> %s 0) (- (div (- %s) %s)) (div (- %s) (- %s))))", x, y, x, y, x, y, y, x, y, x, y)
}

func constOf(v Val) (*big.Int, bool) {
	s := v.T
	neg := false
	if strings.HasPrefix(s, "(- ") && strings.HasSuffix(s, ")") {
		neg = true
		s = s[3 : len(s)-1]
	}
	n, ok := new(big.Int).SetString(s, 10)
	if !ok {
		return nil, false
	}
	if neg {
		n.Neg(n)
	}
	return n, true
}

// isMask reports whether n == 2^k - 1 and returns k.
func isMask(n *big.Int) (int, bool) {
	if n.Sign() < 0 {
		return 0, false
	}
	m := new(big.Int).Add(n, big.NewInt(1))
	if m.BitLen() > 0 && new(big.Int).And(m, n).Sign() == 0 {
		return m.BitLen() - 1, true
	}
	return 0, false
}

func (f *Frame) bitop(st *State, op token.Token, a, b Val, t types.Type, bits int, signed bool) string {
	x, y := a.T, b.T
	ca, aok := constOf(a)
	cb, bok := constOf(b)
	if aok && bok {
		var r *big.Int
		switch op {
		case token.AND:
			r = new(big.Int).And(ca, cb)
		case token.OR:
			r = new(big.Int).Or(ca, cb)
		case token.XOR:
			r = new(big.Int).Xor(ca, cb)
		case token.AND_NOT:
			r = new(big.Int).AndNot(ca, cb)
		}
		return smtInt(r)
	}
	if aok && !bok && (op == token.AND || op == token.OR || op == token.XOR) {
		x, y = y, x
		ca, cb = cb, ca
		aok, bok = bok, aok
	}
	if !signed && bok {
		switch op {
		case token.AND:
			if k, ok := isMask(cb); ok {
				return fmt.Sprintf("(mod %s %s)", x, pow2(k).String())
			}
			if cb.Sign() == 0 {
				return "0"
			}
			// single bit 2^k
			if cb.BitLen() > 0 && new(big.Int).And(cb, new(big.Int).Sub(cb, big.NewInt(1))).Sign() == 0 {
				k := cb.BitLen() - 1
				return fmt.Sprintf("(* %s (mod (div %s %s) 2))", pow2(k).String(), x, pow2(k).String())
			}
		case token.OR:
			if cb.Sign() == 0 {
				return x
			}
			if k, ok := isMask(cb); ok {
				// x | (2^k - 1): the low k bits become ones
				return fmt.Sprintf("(+ (- %s (mod %s %s)) %s)", x, x, pow2(k).String(), cb.String())
			}
		case token.XOR:
			if cb.Sign() == 0 {
				return x
			}
			if k, ok := isMask(cb); ok && k == bits {
				return fmt.Sprintf("(- %s %s)", cb.String(), x)
			}
		}
	}
	// general case: uninterpreted with the basic bounds
	nm := map[token.Token]string{token.AND: "bit_and", token.OR: "bit_or", token.XOR: "bit_xor", token.AND_NOT: "bit_andnot"}[op]
	fn := f.c.uf(fmt.Sprintf("%s%d", nm, bits), []string{"Int", "Int"}, "Int")
	r := fmt.Sprintf("(%s %s %s)", fn, x, y)
	f.c.note(fmt.Sprintf("%s on non-constant operands is an uninterpreted function with range/bound axioms only", nm))
	if !signed && bits == 8 {
		// byte-wide operations with a single-bit operand (bit-set flags): exact arithmetic identities
		//   x & 2^k = 2^k * bit_k(x);  x | 2^k = x + 2^k * (1 - bit_k(x));  x &^ 2^k = x - 2^k * bit_k(x)
		for k := 0; k < 8; k++ {
			p := pow2(k).String()
			bit := func(v string) string { return fmt.Sprintf("(mod (div %s %s) 2)", v, p) }
			switch op {
			case token.AND:
				st.assume(fmt.Sprintf("(=> (= %s %s) (= %s (* %s %s)))", y, p, r, p, bit(x)))
				st.assume(fmt.Sprintf("(=> (= %s %s) (= %s (* %s %s)))", x, p, r, p, bit(y)))
			case token.OR:
				st.assume(fmt.Sprintf("(=> (= %s %s) (= %s (+ %s (* %s (- 1 %s)))))", y, p, r, x, p, bit(x)))
				st.assume(fmt.Sprintf("(=> (= %s %s) (= %s (+ %s (* %s (- 1 %s)))))", x, p, r, y, p, bit(y)))
			case token.AND_NOT:
				st.assume(fmt.Sprintf("(=> (= %s %s) (= %s (- %s (* %s %s))))", y, p, r, x, p, bit(x)))
			}
		}
	}
	if !signed {
		st.assume(fmt.Sprintf("(>= %s 0)", r))
		switch op {
		case token.AND:
			st.assume(fmt.Sprintf("(<= %s %s)", r, x))
			st.assume(fmt.Sprintf("(<= %s %s)", r, y))
			// the power-of-two idiom n & (n-1) == 0: a power of two that is at least 2^k is a multiple of 2^k
			for _, k := range []int{1, 2, 3, 4, 5, 6} {
				p := pow2(k).String()
				st.assume(fmt.Sprintf("(=> (and (= (+ %s 1) %s) (= %s 0) (>= %s %s)) (= (mod %s %s) 0))", y, x, r, x, p, x, p))
				st.assume(fmt.Sprintf("(=> (and (= (+ %s 1) %s) (= %s 0) (>= %s %s)) (= (mod %s %s) 0))", x, y, r, y, p, y, p))
			}
		case token.OR:
			st.assume(fmt.Sprintf("(>= %s %s)", r, x))
			st.assume(fmt.Sprintf("(>= %s %s)", r, y))
			st.assume(fmt.Sprintf("(<= %s (+ %s %s))", r, x, y))
			st.assume(fmt.Sprintf("(< %s %s)", r, pow2(bits).String()))
			// disjoint bits: (a << k) | b with b < 2^k is a + b (sound bit-level identity)
			for _, k := range []int{1, 2, 4, 8, 16, 32} {
				p := pow2(k).String()
				st.assume(fmt.Sprintf("(=> (and (= (mod %s %s) 0) (< %s %s)) (= %s (+ %s %s)))", x, p, y, p, r, x, y))
				st.assume(fmt.Sprintf("(=> (and (= (mod %s %s) 0) (< %s %s)) (= %s (+ %s %s)))", y, p, x, p, r, x, y))
			}
		case token.XOR:
			st.assume(fmt.Sprintf("(<= %s (+ %s %s))", r, x, y))
			st.assume(fmt.Sprintf("(< %s %s)", r, pow2(bits).String()))
		case token.AND_NOT:
			st.assume(fmt.Sprintf("(<= %s %s)", r, x))
		}
	} else {
		for _, inv := range f.c.sorts.TypeInv(r, t, 0) {
			st.assume(inv)
		}
	}
	return r
}

// convert encodes the Go conversion T(v).
func (f *Frame) convert(st *State, v Val, to types.Type, pos token.Pos) Val {
	if v.T == "nil" {
		// T(nil) for a slice, map, pointer or interface type: the zero value of T
		switch f.typ(to).Underlying().(type) {
		case *types.Slice, *types.Map, *types.Pointer, *types.Interface, *types.Signature, *types.Chan:
			return Val{T: f.c.sorts.Zero(f.typ(to)), Ty: f.typ(to)}
		}
	}
	to = f.typ(to)
	from := v.Ty
	if from == nil {
		return Val{T: v.T, Ty: to}
	}
	if isBigInt(to) || isBigInt(from) {
		return Val{T: v.T, Ty: to}
	}
	fu, tu := from.Underlying(), to.Underlying()
	if isInteger(to) && isInteger(from) {
		if c, ok := constOf(v); ok {
			lo, hi, _ := intRange(to)
			if isUntyped(to) || (c.Cmp(lo) >= 0 && c.Cmp(hi) <= 0) {
				return Val{T: v.T, Ty: to}
			}
		}
		if isUntyped(from) || isUntyped(to) {
			return Val{T: v.T, Ty: to}
		}
		flo, fhi, _ := intRange(from)
		tlo, thi, _ := intRange(to)
		if flo.Cmp(tlo) >= 0 && fhi.Cmp(thi) <= 0 {
			return Val{T: v.T, Ty: to}
		}
		return f.name("cv", Val{T: wrap(v.T, to), Ty: to})
	}
	if types.Identical(fu, tu) {
		return Val{T: v.T, Ty: to}
	}
	fs, ts := f.c.sorts.SortOf(from), f.c.sorts.SortOf(to)
	// string <-> []byte
	if isString(to) {
		if sl, ok := fu.(*types.Slice); ok && isInteger(sl.Elem()) {
			fn := f.c.uf("str_of_bytes", []string{fs}, "Str")
			r := Val{T: fmt.Sprintf("(%s %s)", fn, v.T), Ty: to}
			st.assume(fmt.Sprintf("(= (gstr_len %s) (%s.len %s))", r.T, fs, v.T))
			nr := f.name("s", r)
			// the string's bytes are the slice's bytes (so equal strings mean equal contents)
			f.c.qN++
			q := fmt.Sprintf("i!q%d", f.c.qN)
			st.assume(fmt.Sprintf("(forall ((%s Int)) (=> (and (<= 0 %s) (< %s (%s.len %s))) (= (select (gstr_bytes %s) %s) (select (%s.arr %s) (+ (%s.off %s) %s)))))",
				q, q, q, fs, v.T, nr.T, q, fs, v.T, fs, v.T, q))
			f.c.note("string([]byte) conversion: a function of the slice value; same length and the same bytes")
			return nr
		}
		if isInteger(from) {
			return f.havoc(st, "runestr", to)
		}
	}
	if sl, ok := tu.(*types.Slice); ok && isString(from) && isInteger(sl.Elem()) {
		// []byte(s): array of the string's bytes
		r := f.havoc(st, "bytes", to)
		st.assume(fmt.Sprintf("(= (%s.len %s) (gstr_len %s))", ts, r.T, v.T))
		st.assume(fmt.Sprintf("(= (%s.off %s) 0)", ts, r.T))
		st.assume(fmt.Sprintf("(= (%s.arr %s) (gstr_bytes %s))", ts, r.T, v.T))
		return r
	}
	if fs == ts {
		return Val{T: v.T, Ty: to}
	}
	// interface conversions and the rest: opaque function of the source
	if ts == "Ifc" || ts == "Err" {
		fn := f.c.uf("box_"+sanitize(fs)+"_"+ts, []string{fs}, ts)
		r := Val{T: fmt.Sprintf("(%s %s)", fn, v.T), Ty: to}
		if fs != "Ifc" && fs != "Err" {
			// asserting the boxed value's own type gives the value back
			un := f.c.uf("unbox_"+ts+"_"+sanitize(fs), []string{ts}, fs)
			st.assume(fmt.Sprintf("(= (%s %s) %s)", un, r.T, v.T))
			// an interface holding a concrete value (even a nil pointer) is non-nil
			nilc := "ifc_nil"
			if ts == "Err" {
				nilc = "err_nil"
			}
			st.assume(fmt.Sprintf("(not (= %s %s))", r.T, nilc))
		}
		return r
	}
	if isInteger(to) {
		// float -> int etc
		f.c.note("numeric conversion from a non-integer type abstracted to an arbitrary value")
		return f.havoc(st, "cv", to)
	}
	fn := f.c.uf("conv_"+sanitize(fs)+"_"+sanitize(ts), []string{fs}, ts)
	f.c.note(fmt.Sprintf("conversion %s -> %s is an uninterpreted function", fs, ts))
	return Val{T: fmt.Sprintf("(%s %s)", fn, v.T), Ty: to}
}

func (f *Frame) constVal(cv constant.Value, t types.Type) (Val, bool) {
	switch cv.Kind() {
	case constant.Bool:
		return Val{T: fmt.Sprint(constant.BoolVal(cv)), Ty: t}, true
	case constant.Int:
		bi, ok := constant.Val(cv).(*big.Int)
		if !ok {
			i64, _ := constant.Int64Val(cv)
			bi = big.NewInt(i64)
		}
		return Val{T: smtInt(bi), Ty: t}, true
	case constant.Float:
		if isInteger(t) {
			if iv := constant.ToInt(cv); iv.Kind() == constant.Int {
				return f.constVal(iv, t)
			}
		}
	case constant.String:
		return f.strConst(constant.StringVal(cv), t), true
	}
	return Val{}, false
}

func (f *Frame) strConst(s string, t types.Type) Val {
	if s == "" {
		return Val{T: "str_empty", Ty: t}
	}
	c := f.c
	key := "strlit:" + s
	if n, ok := c.strLits[key]; ok {
		return Val{T: n, Ty: t}
	}
	n := fmt.Sprintf("strlit!%d", len(c.strLits))
	c.strLits[key] = n
	c.decls = append(c.decls, fmt.Sprintf("(declare-const %s Str) ; %q", n, truncateStr(s, 40)))
	c.strLitOrder = append(c.strLitOrder, n)
	c.strLitVals = append(c.strLitVals, s)
	return Val{T: n, Ty: t}
}

func truncateStr(s string, n int) string {
	if len(s) > n {
		return s[:n] + "..."
	}
	return s
}

func (f *Frame) lookupVar(st *State, obj types.Object, pos ast.Node) Val {
	if v, ok := st.env[obj]; ok {
		return v
	}
	switch o := obj.(type) {
	case *types.Var:
		if o.Parent() == o.Pkg().Scope() || o.Pkg() != f.fn.Pkg.Types || !o.IsField() && o.Parent() != nil && o.Parent().Parent() == types.Universe {
			return f.globalVar(st, o)
		}
		// package-level var of another package
		if o.Pkg() != nil && o.Pkg().Scope().Lookup(o.Name()) == o {
			return f.globalVar(st, o)
		}
		f.unsupported(pos, "variable %s not in scope of the symbolic state (closure capture?)", o.Name())
	case *types.Nil:
		return Val{T: "nil", Ty: types.Typ[types.UntypedNil]}
	}
	f.unsupported(pos, "unsupported object %v", obj)
	return Val{}
}

// globalVar models a package-level variable as a constant symbol: read as an arbitrary but fixed
// value of its type (error sentinels are additionally non-nil).
func (f *Frame) globalVar(st *State, o *types.Var) Val {
	if n, ok := f.c.globals[o]; ok {
		return Val{T: n, Ty: o.Type()}
	}
	sort := f.c.sorts.SortOf(o.Type())
	n := "glob_" + sanitize(shortPkg(o.Pkg())+"."+o.Name())
	f.c.decls = append(f.c.decls, fmt.Sprintf("(declare-const %s %s)", n, sort))
	f.c.globals[o] = n
	f.c.globalOrder = append(f.c.globalOrder, o)
	f.c.note(fmt.Sprintf("package-level variable %s.%s read as a fixed arbitrary value of its type", o.Pkg().Name(), o.Name()))
	return Val{T: n, Ty: o.Type()}
}

// globalFacts returns facts about package-level variables that every state may use.
func (c *Ctx) globalFacts() []string {
	var out []string
	var errs []string
	for _, o := range c.globalOrder {
		n := c.globals[o]
		if c.sorts.SortOf(o.Type()) == "Err" {
			out = append(out, fmt.Sprintf("(not (= %s err_nil))", n))
			errs = append(errs, n)
		} else {
			out = append(out, c.sorts.TypeInv(n, o.Type(), 0)...)
		}
	}
	if len(errs) > 1 {
		out = append(out, "(distinct "+strings.Join(errs, " ")+")")
	}
	if len(c.strLitOrder) > 0 {
		for i, n := range c.strLitOrder {
			out = append(out, fmt.Sprintf("(= (gstr_len %s) %d)", n, len(c.strLitVals[i])))
			if len(c.strLitVals[i]) <= 8 {
				for k := 0; k < len(c.strLitVals[i]); k++ {
					out = append(out, fmt.Sprintf("(= (select (gstr_bytes %s) %d) %d)", n, k, c.strLitVals[i][k]))
				}
			}
		}
		all := append([]string{"str_empty"}, c.strLitOrder...)
		if len(all) > 1 {
			out = append(out, "(distinct "+strings.Join(all, " ")+")")
		}
	}
	return out
}

// eval evaluates a single-valued expression.
func (f *Frame) eval(st *State, e ast.Expr) Val {
	if tv, ok := f.info.Types[e]; ok && tv.Value != nil {
		if v, ok := f.constVal(tv.Value, f.typ(tv.Type)); ok {
			return v
		}
	}
	switch x := e.(type) {
	case *ast.ParenExpr:
		return f.eval(st, x.X)
	case *ast.Ident:
		if x.Name == "_" {
			f.unsupported(e, "blank identifier read")
		}
		obj := f.info.ObjectOf(x)
		if obj == nil {
			f.unsupported(e, "unresolved identifier %s", x.Name)
		}
		if _, ok := obj.(*types.Nil); ok {
			return Val{T: "nil", Ty: types.Typ[types.UntypedNil]}
		}
		if c, ok := obj.(*types.Const); ok {
			if v, ok := f.constVal(c.Val(), f.typ(c.Type())); ok {
				return v
			}
		}
		return f.lookupVar(st, obj, e)
	case *ast.BasicLit:
		f.unsupported(e, "literal without constant value")
	case *ast.UnaryExpr:
		return f.evalUnary(st, x)
	case *ast.BinaryExpr:
		return f.evalBinary(st, x)
	case *ast.CallExpr:
		rs := f.evalCall(st, x)
		if len(rs) != 1 {
			f.unsupported(e, "call yields %d values in single-value context", len(rs))
		}
		return rs[0]
	case *ast.SelectorExpr:
		return f.evalSelector(st, x)
	case *ast.IndexExpr:
		return f.evalIndex(st, x)
	case *ast.SliceExpr:
		return f.evalSliceExpr(st, x)
	case *ast.StarExpr:
		p := f.eval(st, x.X)
		return f.deref(st, p, x)
	case *ast.CompositeLit:
		return f.evalCompositeLit(st, x)
	case *ast.TypeAssertExpr:
		xv := f.eval(st, x.X)
		tt := f.typeOf(e)
		xs, tso := f.c.sorts.SortOf(xv.Ty), f.c.sorts.SortOf(tt)
		if (xs == "Ifc" || xs == "Err") && tso != "Ifc" && tso != "Err" {
			// x.(T) with a concrete T: a function of the interface value (the same value unboxes the
			// same way every time; unbox(box(v)) == v). The panic on a dynamic-type mismatch is not modelled.
			f.c.note("type assertion x.(T): the value is a function of the interface value; the panic on a dynamic-type mismatch is not modelled")
			un := f.c.uf("unbox_"+xs+"_"+sanitize(tso), []string{xs}, tso)
			r := Val{T: fmt.Sprintf("(%s %s)", un, xv.T), Ty: tt}
			for _, inv := range f.c.sorts.TypeInv(r.T, tt, 0) {
				st.assume(inv)
			}
			return r
		}
		f.c.note("type assertion abstracted to an arbitrary value of the asserted type")
		return f.havoc(st, "ta", tt)
	case *ast.FuncLit:
		f.c.note("function literal treated as an opaque value")
		return f.havoc(st, "fn", f.typeOf(e))
	}
	f.unsupported(e, "expression %T", e)
	return Val{}
}

func (f *Frame) deref(st *State, p Val, n ast.Node) Val {
	pt, ok := p.Ty.Underlying().(*types.Pointer)
	if !ok {
		f.unsupported(n, "dereference of non-pointer %v", p.Ty)
	}
	if isBigInt(p.Ty) {
		return Val{T: p.T, Ty: pt.Elem()}
	}
	so := f.c.sorts.SortOf(p.Ty)
	return Val{T: fmt.Sprintf("(%s.val %s)", so, p.T), Ty: f.typ(pt.Elem())}
}

func (f *Frame) evalUnary(st *State, x *ast.UnaryExpr) Val {
	switch x.Op {
	case token.NOT:
		v := f.eval(st, x.X)
		return Val{T: not(v.T), Ty: v.Ty}
	case token.SUB:
		v := f.eval(st, x.X)
		t := f.typeOf(x)
		if isInteger(t) {
			return f.arith(st, token.SUB, Val{T: "0", Ty: t}, v, t, x.Pos())
		}
		return f.havoc(st, "neg", t)
	case token.ADD:
		return f.eval(st, x.X)
	case token.XOR:
		v := f.eval(st, x.X)
		t := f.typeOf(x)
		lo, hi, ok := intRange(t)
		if !ok {
			f.unsupported(x, "^ on non-integer")
		}
		if lo.Sign() == 0 {
			return f.name("t", Val{T: fmt.Sprintf("(- %s %s)", hi.String(), v.T), Ty: t})
		}
		return f.name("t", Val{T: fmt.Sprintf("(- (- %s) 1)", v.T), Ty: t})
	case token.AND:
		// &x : pointer to a copy of the current value; writes through it are tracked by the
		// callee write-back logic when passed directly as an argument (see evalCall).
		inner := x.X
		if cl, ok := ast.Unparen(inner).(*ast.CompositeLit); ok {
			if isBigInt(f.typeOf(cl)) {
				return f.bigAlloc(st, "0")
			}
			v := f.evalCompositeLit(st, cl)
			return f.mkPtr(v)
		}
		v := f.eval(st, inner)
		p := f.mkPtr(v)
		if root, path, ok := f.lvaluePath(inner); ok {
			// pointer to a variable or to one of its fields: writes through it are applied to that
			// location as well (refs.go)
			p.Refs = []refAlt{{Cond: "true", Root: root, Fields: path}}
			for _, a2 := range v.Refs {
				_ = a2
			}
			return p
		}
		f.c.note("address-of a non-path expression: pointer modelled as a copy of the pointee (no aliasing tracked)")
		return p
	case token.ARROW:
		f.c.note("channel receive abstracted to an arbitrary value")
		return f.havoc(st, "recv", f.typeOf(x))
	}
	f.unsupported(x, "unary operator %v", x.Op)
	return Val{}
}

func (f *Frame) mkPtr(v Val) Val {
	pt := types.NewPointer(v.Ty)
	if isBigInt(v.Ty) {
		return Val{T: v.T, Ty: pt}
	}
	so := f.c.sorts.SortOf(pt)
	return Val{T: fmt.Sprintf("(mk_%s false %s)", so, v.T), Ty: pt}
}

func (f *Frame) evalBinary(st *State, x *ast.BinaryExpr) Val {
	var bt types.Type = types.Typ[types.Bool]
	if tv, ok := f.info.Types[x]; ok {
		bt = f.typ(tv.Type)
	}
	switch x.Op {
	case token.LAND, token.LOR:
		a := f.eval(st, x.X)
		st2 := st.fork()
		if x.Op == token.LAND {
			st2.assume(a.T)
		} else {
			st2.assume(not(a.T))
		}
		b := f.eval(st2, x.Y)
		// side effects in the right operand: merge back
		if f.envChanged(st, st2) {
			other := st.fork()
			if x.Op == token.LAND {
				other.assume(not(a.T))
			} else {
				other.assume(a.T)
			}
			m := f.mergeStates([]*State{st2, other})
			st.env, st.pc, st.gh = m.env, m.pc, m.gh
		} else {
			// keep facts learned while evaluating b only as guarded facts
			var extra []string
			if len(st2.pc) > len(st.pc)+1 {
				extra = st2.pc[len(st.pc)+1:]
			}
			guard := a.T
			if x.Op == token.LOR {
				guard = not(a.T)
			}
			for _, e := range extra {
				st.assume(implies(guard, e))
			}
		}
		if x.Op == token.LAND {
			return f.name("c", Val{T: conj([]string{a.T, b.T}), Ty: bt})
		}
		return f.name("c", Val{T: disj([]string{a.T, b.T}), Ty: bt})
	}
	a := f.eval(st, x.X)
	b := f.eval(st, x.Y)
	switch x.Op {
	case token.EQL, token.NEQ:
		eq := f.equal(st, a, b, x)
		if x.Op == token.NEQ {
			eq = not(eq)
		}
		return Val{T: eq, Ty: bt}
	case token.LSS, token.LEQ, token.GTR, token.GEQ:
		op := map[token.Token]string{token.LSS: "<", token.LEQ: "<=", token.GTR: ">", token.GEQ: ">="}[x.Op]
		if a.Ty != nil && isString(a.Ty) || b.Ty != nil && isString(b.Ty) {
			fn := f.c.uf("gstr_cmp", []string{"Str", "Str"}, "Int")
			f.c.note("string ordering is an uninterpreted comparison function")
			return Val{T: fmt.Sprintf("(%s (%s %s %s) 0)", op, fn, a.T, b.T), Ty: bt}
		}
		if a.Ty != nil && !isInteger(a.Ty) {
			return f.havoc(st, "cmp", bt)
		}
		return Val{T: fmt.Sprintf("(%s %s %s)", op, a.T, b.T), Ty: bt}
	}
	t := f.typeOf(x)
	if x.Op == token.SHL || x.Op == token.SHR {
		// result type is the left operand's type
		return f.arith(st, x.Op, a, b, t, x.Pos())
	}
	return f.arith(st, x.Op, a, b, t, x.Pos())
}

func (f *Frame) envChanged(a, b *State) bool {
	for k, v := range b.env {
		if a.env[k].T != v.T {
			return true
		}
	}
	for k, v := range b.gh {
		if a.gh[k].T != v.T {
			return true
		}
	}
	return false
}

// equal encodes Go's == between two values.
func (f *Frame) equal(st *State, a, b Val, n ast.Node) string {
	isNil := func(v Val) bool { return v.T == "nil" }
	if isNil(a) && isNil(b) {
		return "true"
	}
	if isNil(b) {
		a, b = b, a
	}
	if isNil(a) {
		// b == nil
		if isCutType(b.Ty) {
			return fmt.Sprintf("(= %s %s)", b.T, f.c.sorts.Zero(b.Ty))
		}
		switch u := b.Ty.Underlying().(type) {
		case *types.Pointer:
			if isBigInt(b.Ty) {
				return fmt.Sprintf("(= %s 0)", b.T)
			}
			return fmt.Sprintf("(%s.nil %s)", f.c.sorts.SortOf(b.Ty), b.T)
		case *types.Interface:
			if f.c.sorts.SortOf(b.Ty) == "Err" {
				return fmt.Sprintf("(= %s err_nil)", b.T)
			}
			return fmt.Sprintf("(= %s ifc_nil)", b.T)
		case *types.Slice:
			so := f.c.sorts.SortOf(b.Ty)
			return fmt.Sprintf("(< (%s.off %s) 0)", so, b.T) // the nil slice has offset -1
		case *types.Map:
			so := f.c.sorts.SortOf(b.Ty)
			fn := f.nilFn(b.Ty)
			// a nil map has no keys
			ks := f.c.sorts.SortOf(u.Key())
			st.assume(fmt.Sprintf("(=> (%s %s) (and (= (%s.card %s) 0) (= (%s.dom %s) ((as const (Array %s Bool)) false))))", fn, b.T, so, b.T, so, b.T, ks))
			return fmt.Sprintf("(%s %s)", fn, b.T)
		case *types.Signature, *types.Chan:
			so := f.c.sorts.SortOf(b.Ty)
			fn := f.c.uf("isnil_"+sanitize(so), []string{so}, "Bool")
			return fmt.Sprintf("(%s %s)", fn, b.T)
		default:
			_ = u
			if isCutType(b.Ty) {
				return fmt.Sprintf("(= %s %s)", b.T, f.c.sorts.Zero(b.Ty))
			}
			f.unsupported(n, "comparison of %v with nil", b.Ty)
		}
	}
	if a.Ty != nil && b.Ty != nil {
		sa, sb := f.c.sorts.SortOf(a.Ty), f.c.sorts.SortOf(b.Ty)
		if sa != sb {
			// interface vs concrete: box the concrete side
			if sa == "Ifc" || sa == "Err" {
				b = f.convert(st, b, a.Ty, token.NoPos)
			} else if sb == "Ifc" || sb == "Err" {
				a = f.convert(st, a, b.Ty, token.NoPos)
			} else {
				f.unsupported(n, "comparison between sorts %s and %s", sa, sb)
			}
		}
		if _, ok := a.Ty.Underlying().(*types.Pointer); ok && !isBigInt(a.Ty) {
			f.c.note("pointer equality abstracted (only nil-ness is modelled)")
			so := f.c.sorts.SortOf(a.Ty)
			fn := f.c.uf("ptreq_"+sanitize(so), []string{so, so}, "Bool")
			return fmt.Sprintf("(%s %s %s)", fn, a.T, b.T)
		}
	}
	if a.T == b.T {
		return "true"
	}
	return fmt.Sprintf("(= %s %s)", a.T, b.T)
}

func (f *Frame) fieldOf(v Val, name string, n ast.Node) Val {
	t := v.Ty
	ss := f.c.sorts.StructOf(t)
	if ss == nil {
		f.unsupported(n, "field %s of non-struct %v", name, t)
	}
	f.c.sorts.markUsed(ss.Sort, name)
	for _, fl := range ss.Fields {
		if fl.Name == name {
			return Val{T: selectField(fl.Sel, ss, v.T), Ty: f.typ(fl.Type)}
		}
	}
	if ss.Pruned {
		panic(needField{ss.Sort, name})
	}
	f.unsupported(n, "no field %s in %v", name, t)
	return Val{}
}

// selectField simplifies (sel (mk ...)) when the argument is literally a constructor application.
func selectField(sel string, ss *StructSort, term string) string {
	if strings.HasPrefix(term, "("+ss.Ctor+" ") {
		args := splitSexpArgs(term)
		if len(args) == len(ss.Fields)+1 {
			for i, fl := range ss.Fields {
				if fl.Sel == sel {
					return args[i+1]
				}
			}
		}
	}
	return "(" + sel + " " + term + ")"
}

// splitSexpArgs splits "(f a (b c) d)" into [f, a, (b c), d].
func splitSexpArgs(s string) []string {
	if len(s) < 2 || s[0] != '(' || s[len(s)-1] != ')' {
		return nil
	}
	s = s[1 : len(s)-1]
	var out []string
	d := 0
	start := -1
	for i := 0; i < len(s); i++ {
		c := s[i]
		switch {
		case c == '(':
			if d == 0 && start < 0 {
				start = i
			}
			d++
		case c == ')':
			d--
			if d == 0 {
				out = append(out, s[start:i+1])
				start = -1
			}
		case c == ' ' || c == '\n' || c == '\t' || c == '\r':
			if d == 0 && start >= 0 {
				out = append(out, s[start:i])
				start = -1
			}
		case c == '|':
			// quoted symbol: skip to the closing bar
			if start < 0 && d == 0 {
				start = i
			}
			j := strings.IndexByte(s[i+1:], '|')
			if j < 0 {
				return nil
			}
			i += j + 1
		default:
			if d == 0 && start < 0 {
				start = i
			}
		}
	}
	if start >= 0 {
		out = append(out, s[start:])
	}
	return out
}

// intoCut converts a value stored into a field whose sort sits behind a recursion cut (an opaque sort):
// the zero value maps to the cut sort's zero, anything else through an uninterpreted injection.
func (f *Frame) intoCut(fl StructField, nv Val) string {
	if !isCutType(fl.Type) || nv.Ty == nil || isCutType(nv.Ty) {
		return nv.T
	}
	rs := f.c.sorts.SortOf(nv.Ty)
	if rs == fl.Sort {
		return nv.T
	}
	if nv.T == f.c.sorts.Zero(nv.Ty) {
		return f.c.sorts.Zero(fl.Type)
	}
	fn := f.c.uf("cutinj_"+sanitize(fl.Sort), []string{rs}, fl.Sort)
	return fmt.Sprintf("(%s %s)", fn, nv.T)
}

// withField returns the struct value v with field name replaced.
func (f *Frame) withField(v Val, name string, nv Val, n ast.Node) Val {
	ss := f.c.sorts.StructOf(v.Ty)
	if ss == nil {
		f.unsupported(n, "field update on non-struct %v", v.Ty)
	}
	var parts []string
	found := false
	f.c.sorts.markUsed(ss.Sort, name)
	for _, fl := range ss.Fields {
		if fl.Name == name {
			parts = append(parts, f.intoCut(fl, nv))
			found = true
		} else {
			parts = append(parts, selectField(fl.Sel, ss, v.T))
		}
	}
	if !found && ss.Pruned {
		panic(needField{ss.Sort, name})
	}
	if !found {
		f.unsupported(n, "no field %s", name)
	}
	return Val{T: "(" + ss.Ctor + " " + strings.Join(parts, " ") + ")", Ty: v.Ty}
}

func (f *Frame) evalSelector(st *State, x *ast.SelectorExpr) Val {
	// qualified identifier pkg.Name
	if id, ok := x.X.(*ast.Ident); ok {
		if _, isPkg := f.info.ObjectOf(id).(*types.PkgName); isPkg {
			obj := f.info.ObjectOf(x.Sel)
			if c, ok := obj.(*types.Const); ok {
				if v, ok := f.constVal(c.Val(), f.typ(c.Type())); ok {
					return v
				}
			}
			if v, ok := obj.(*types.Var); ok {
				return f.globalVar(st, v)
			}
			if fn, ok := obj.(*types.Func); ok {
				f.c.note("function value " + fn.Name() + " treated as opaque")
				return f.havoc(st, "fnv", f.typeOf(x))
			}
			f.unsupported(x, "qualified identifier %s", x.Sel.Name)
		}
	}
	sel := f.info.Selections[x]
	if sel == nil {
		f.unsupported(x, "selector without selection")
	}
	if sel.Kind() != types.FieldVal {
		f.c.note("method value treated as opaque")
		f.eval(st, x.X)
		return f.havoc(st, "mv", f.typeOf(x))
	}
	v := f.eval(st, x.X)
	r := f.selectPath(st, v, sel, x)
	if len(r.T) > 80 {
		return f.name("f", r)
	}
	return r
}

// selectPath follows a (possibly embedded) field selection path from v.
func (f *Frame) selectPath(st *State, v Val, sel *types.Selection, n ast.Node) Val {
	cur := v
	recv := sel.Recv()
	_ = recv
	idx := sel.Index()
	for _, i := range idx {
		if _, ok := cur.Ty.Underlying().(*types.Pointer); ok {
			cur = f.deref(st, cur, n)
		}
		stt, ok := cur.Ty.Underlying().(*types.Struct)
		if !ok {
			f.unsupported(n, "selection through non-struct %v", cur.Ty)
		}
		cur = f.fieldOf(cur, stt.Field(i).Name(), n)
	}
	return cur
}

func (f *Frame) evalIndex(st *State, x *ast.IndexExpr) Val {
	// generic function instantiation f[T]
	if tv, ok := f.info.Types[x.X]; ok {
		if _, isSig := tv.Type.Underlying().(*types.Signature); isSig {
			return f.havoc(st, "fninst", f.typeOf(x))
		}
	}
	base := f.eval(st, x.X)
	if m, ok := base.Ty.Underlying().(*types.Map); ok {
		k := f.eval(st, x.Index)
		k = f.convertForAssign(st, k, m.Key())
		v, _ := f.mapLookup(st, base, k)
		return v
	}
	i := f.eval(st, x.Index)
	return f.indexVal(st, base, i, x, true)
}

func (f *Frame) mapLookup(st *State, m, k Val) (Val, string) {
	mt := m.Ty.Underlying().(*types.Map)
	so := f.c.sorts.SortOf(m.Ty)
	present := fmt.Sprintf("(select (%s.dom %s) %s)", so, m.T, k.T)
	elemT := f.typ(mt.Elem())
	val := fmt.Sprintf("(select (%s.val %s) %s)", so, m.T, k.T)
	r := f.name("mv", Val{T: ite(present, val, f.c.sorts.Zero(elemT)), Ty: elemT})
	for _, inv := range f.c.sorts.TypeInv(r.T, elemT, 0) {
		st.assume(inv)
	}
	return r, present
}

// indexVal reads base[i] for arrays, slices, strings and pointers to arrays.
func (f *Frame) indexVal(st *State, base, i Val, n ast.Node, check bool) Val {
	if _, ok := base.Ty.Underlying().(*types.Pointer); ok {
		base = f.deref(st, base, n)
	}
	pos := token.NoPos
	if n != nil {
		pos = n.Pos()
	}
	switch u := base.Ty.Underlying().(type) {
	case *types.Array:
		if check {
			f.panicSite(st, "index", fmt.Sprintf("(and (<= 0 %s) (< %s %d))", i.T, i.T, u.Len()), pos)
		}
		et := f.typ(u.Elem())
		r := f.name("e", Val{T: fmt.Sprintf("(select %s %s)", f.arrTerm(base), i.T), Ty: et})
		for _, inv := range f.c.sorts.TypeInv(r.T, et, 0) {
			st.assume(inv)
		}
		return r
	case *types.Slice:
		so := f.c.sorts.SortOf(base.Ty)
		if check {
			f.panicSite(st, "index", fmt.Sprintf("(and (<= 0 %s) (< %s (%s.len %s)))", i.T, i.T, so, base.T), pos)
		}
		et := f.typ(u.Elem())
		r := f.name("e", Val{T: fmt.Sprintf("(select (%s.arr %s) (+ (%s.off %s) %s))", so, base.T, so, base.T, i.T), Ty: et})
		for _, inv := range f.c.sorts.TypeInv(r.T, et, 0) {
			st.assume(inv)
		}
		return r
	case *types.Basic:
		if u.Info()&types.IsString != 0 {
			if check {
				f.panicSite(st, "index", fmt.Sprintf("(and (<= 0 %s) (< %s (gstr_len %s)))", i.T, i.T, base.T), pos)
			}
			r := Val{T: fmt.Sprintf("(select (gstr_bytes %s) %s)", base.T, i.T), Ty: types.Typ[types.Uint8]}
			st.assume(fmt.Sprintf("(and (<= 0 %s) (<= %s 255))", r.T, r.T))
			return r
		}
	}
	f.unsupported(n, "index into %v", base.Ty)
	return Val{}
}

// nilFn returns the (uninterpreted) nil-ness predicate of a map sort.
func (f *Frame) nilFn(t types.Type) string {
	so := f.c.sorts.SortOf(t)
	fn := f.c.uf("isnil_"+sanitize(so), []string{so}, "Bool")
	return fn
}

// notNil records that a freshly made slice/map value is not nil.
func (f *Frame) notNil(st *State, v Val) {
	st.assume(fmt.Sprintf("(not (%s %s))", f.nilFn(v.Ty), v.T))
}

// arrTerm gives the (Array Int E) term holding the elements of an array-typed value.
func (f *Frame) arrTerm(v Val) string {
	if _, ok := baLen(v.Ty); ok {
		return fmt.Sprintf("(%s.bytes %s)", f.c.sorts.SortOf(v.Ty), v.T)
	}
	return v.T
}

// fromArr builds an array-typed value of type t from an (Array Int E) term.
func (f *Frame) fromArr(st *State, arr string, t types.Type) Val {
	if _, ok := baLen(t); ok {
		so := f.c.sorts.SortOf(t)
		n := f.c.fresh("ba", so)
		st.assume(fmt.Sprintf("(= (%s.bytes %s) %s)", so, n, arr))
		return Val{T: n, Ty: t}
	}
	return Val{T: arr, Ty: t}
}

func (f *Frame) sliceLen(v Val) string {
	so := f.c.sorts.SortOf(v.Ty)
	return fmt.Sprintf("(%s.len %s)", so, v.T)
}

func (f *Frame) evalSliceExpr(st *State, x *ast.SliceExpr) Val {
	base := f.eval(st, x.X)
	var lo, hi, mx *Val
	if x.Low != nil {
		v := f.eval(st, x.Low)
		lo = &v
	}
	if x.High != nil {
		v := f.eval(st, x.High)
		hi = &v
	}
	if x.Max != nil {
		v := f.eval(st, x.Max)
		mx = &v
	}
	return f.sliceOf(st, base, lo, hi, mx, x)
}

func (f *Frame) sliceOf(st *State, base Val, lo, hi, mx *Val, n ast.Node) Val {
	if _, ok := base.Ty.Underlying().(*types.Pointer); ok {
		base = f.deref(st, base, n)
	}
	pos := token.NoPos
	if n != nil {
		pos = n.Pos()
	}
	loT := "0"
	if lo != nil {
		loT = lo.T
	}
	switch u := base.Ty.Underlying().(type) {
	case *types.Slice:
		so := f.c.sorts.SortOf(base.Ty)
		capT := fmt.Sprintf("(%s.cap %s)", so, base.T)
		hiT := fmt.Sprintf("(%s.len %s)", so, base.T)
		if hi != nil {
			hiT = hi.T
		}
		newCap := fmt.Sprintf("(- %s %s)", capT, loT)
		if mx != nil {
			f.panicSite(st, "slice", fmt.Sprintf("(and (<= 0 %s) (<= %s %s) (<= %s %s) (<= %s %s))", loT, loT, hiT, hiT, mx.T, mx.T, capT), pos)
			newCap = fmt.Sprintf("(- %s %s)", mx.T, loT)
		} else {
			f.panicSite(st, "slice", fmt.Sprintf("(and (<= 0 %s) (<= %s %s) (<= %s %s))", loT, loT, hiT, hiT, capT), pos)
		}
		r := fmt.Sprintf("(mk_%s (%s.arr %s) (+ (%s.off %s) %s) (- %s %s) %s)", so, so, base.T, so, base.T, loT, hiT, loT, newCap)
		return f.name("sl", Val{T: r, Ty: base.Ty})
	case *types.Array:
		st2 := types.NewSlice(u.Elem())
		so := f.c.sorts.SortOf(st2)
		hiT := fmt.Sprint(u.Len())
		if hi != nil {
			hiT = hi.T
		}
		f.panicSite(st, "slice", fmt.Sprintf("(and (<= 0 %s) (<= %s %s) (<= %s %d))", loT, loT, hiT, hiT, u.Len()), pos)
		r := fmt.Sprintf("(mk_%s %s %s (- %s %s) (- %d %s))", so, f.arrTerm(base), loT, hiT, loT, u.Len(), loT)
		return f.name("sl", Val{T: r, Ty: f.typ(st2)})
	case *types.Basic:
		if u.Info()&types.IsString != 0 {
			hiT := fmt.Sprintf("(gstr_len %s)", base.T)
			if hi != nil {
				hiT = hi.T
			}
			f.panicSite(st, "slice", fmt.Sprintf("(and (<= 0 %s) (<= %s %s) (<= %s (gstr_len %s)))", loT, loT, hiT, hiT, base.T), pos)
			fn := f.c.uf("gstr_sub", []string{"Str", "Int", "Int"}, "Str")
			r := Val{T: fmt.Sprintf("(%s %s %s %s)", fn, base.T, loT, hiT), Ty: base.Ty}
			st.assume(fmt.Sprintf("(= (gstr_len %s) (- %s %s))", r.T, hiT, loT))
			f.c.note("substring is an uninterpreted function with its length axiom")
			return f.name("ss", r)
		}
	}
	f.unsupported(n, "slice of %v", base.Ty)
	return Val{}
}

func (f *Frame) evalCompositeLit(st *State, x *ast.CompositeLit) Val {
	t := f.typeOf(x)
	switch u := t.Underlying().(type) {
	case *types.Struct:
		ss := f.c.sorts.StructOf(t)
		vals := make([]string, len(ss.Fields))
		for i, fl := range ss.Fields {
			vals[i] = f.c.sorts.Zero(f.typ(fl.Type))
		}
		for i, el := range x.Elts {
			name := ""
			var ve ast.Expr = el
			if kv, ok := el.(*ast.KeyValueExpr); ok {
				name = kv.Key.(*ast.Ident).Name
				ve = kv.Value
			} else {
				name = u.Field(i).Name()
			}
			// fields set by a literal are kept (a dropped non-zero field would make `rest` unknown)
			f.c.sorts.markUsed(ss.Sort, name)
			found := false
			for j, fl := range ss.Fields {
				if fl.Name == name {
					v := f.evalElt(st, ve, f.typ(fl.Type))
					vals[j] = v.T
					found = true
				}
			}
			if !found && ss.Pruned {
				panic(needField{ss.Sort, name})
			}
		}
		// `assert at lit:<Type> [label] e`: proved where a value of the named struct type is built; the
		// expression may name the literal's fields (bound to the values being stored) and the function's
		// variables in scope
		if n, ok := t.(*types.Named); ok && f.top && f.contract != nil {
			for _, a := range f.contract.Asserts {
				if a.Anchor != "lit:"+n.Obj().Name() {
					continue
				}
				env := f.loopSpecEnv(st)
				for j, fl := range ss.Fields {
					if fl.Name != "" && !strings.HasPrefix(fl.Name, "#") {
						if outer, ok := env.names[fl.Name]; ok {
							env.names["caller_"+fl.Name] = outer
						}
						env.names[fl.Name] = Val{T: vals[j], Ty: f.typ(fl.Type)}
					}
				}
				k := f.c.counters["assert:"+a.Clause.Label]
				f.c.counters["assert:"+a.Clause.Label] = k + 1
				func() {
					defer f.specGuard(x, "assert at "+a.Anchor)
					tm := f.specBool(st, a.Clause.Expr, env)
					f.oblige(st, "assert", fmt.Sprintf("%s@%s#%d", a.Clause.Label, n.Obj().Name(), k), tm, x.Pos(), a.Clause.Src)
					st.assume(tm)
				}()
			}
		}
		if len(vals) == 0 {
			return Val{T: ss.Ctor, Ty: t}
		}
		return f.name("lit", Val{T: "(" + ss.Ctor + " " + strings.Join(vals, " ") + ")", Ty: t})
	case *types.Slice, *types.Array:
		var et types.Type
		isSlice := false
		if s, ok := u.(*types.Slice); ok {
			et = f.typ(s.Elem())
			isSlice = true
		} else {
			et = f.typ(u.(*types.Array).Elem())
		}
		es := f.c.sorts.SortOf(et)
		arr := fmt.Sprintf("((as const (Array Int %s)) %s)", es, f.c.sorts.Zero(et))
		idx := 0
		maxIdx := 0
		for _, el := range x.Elts {
			var ve ast.Expr = el
			if kv, ok := el.(*ast.KeyValueExpr); ok {
				tv := f.info.Types[kv.Key]
				if tv.Value == nil {
					f.unsupported(x, "non-constant key in array literal")
				}
				k, _ := constant.Int64Val(tv.Value)
				idx = int(k)
				ve = kv.Value
			}
			v := f.evalElt(st, ve, et)
			arr = fmt.Sprintf("(store %s %d %s)", arr, idx, v.T)
			idx++
			if idx > maxIdx {
				maxIdx = idx
			}
		}
		if isSlice {
			so := f.c.sorts.SortOf(t)
			return f.name("lit", Val{T: fmt.Sprintf("(mk_%s %s 0 %d %d)", so, arr, maxIdx, maxIdx), Ty: t})
		}
		if _, ok := baLen(t); ok {
			if len(x.Elts) == 0 {
				return f.zero(t)
			}
			return f.fromArr(st, arr, t)
		}
		return f.name("lit", Val{T: arr, Ty: t})
	case *types.Map:
		m := f.zero(t)
		for _, el := range x.Elts {
			kv := el.(*ast.KeyValueExpr)
			k := f.evalElt(st, kv.Key, f.typ(u.Key()))
			v := f.evalElt(st, kv.Value, f.typ(u.Elem()))
			m = f.mapStore(st, m, k, v)
		}
		return m
	}
	f.unsupported(x, "composite literal of %v", t)
	return Val{}
}

func (f *Frame) evalElt(st *State, e ast.Expr, want types.Type) Val {
	if cl, ok := e.(*ast.CompositeLit); ok && cl.Type == nil {
		// elided type in nested literal
		if _, has := f.info.Types[e]; !has {
			f.unsupported(e, "elided composite literal type")
		}
	}
	v := f.eval(st, e)
	return f.convertForAssign(st, v, want)
}

// convertForAssign adapts a value to the static type of its destination (nil, interface boxing,
// untyped constants).
func (f *Frame) convertForAssign(st *State, v Val, want types.Type) Val {
	want = f.typ(want)
	if v.T == "nil" {
		return f.zero(want)
	}
	if v.Ty == nil {
		return Val{T: v.T, Ty: want}
	}
	ws := f.c.sorts.SortOf(want)
	vs := f.c.sorts.SortOf(v.Ty)
	if ws == vs {
		return Val{T: v.T, Ty: want}
	}
	return f.convert(st, v, want, token.NoPos)
}

func (f *Frame) mapStore(st *State, m, k, v Val) Val {
	so := f.c.sorts.SortOf(m.Ty)
	present := fmt.Sprintf("(select (%s.dom %s) %s)", so, m.T, k.T)
	r := fmt.Sprintf("(mk_%s (store (%s.dom %s) %s true) (store (%s.val %s) %s %s) (ite %s (%s.card %s) (+ (%s.card %s) 1)))",
		so, so, m.T, k.T, so, m.T, k.T, v.T, present, so, m.T, so, m.T)
	return f.name("m", Val{T: r, Ty: m.Ty})
}

func (f *Frame) mapDelete(st *State, m, k Val) Val {
	so := f.c.sorts.SortOf(m.Ty)
	present := fmt.Sprintf("(select (%s.dom %s) %s)", so, m.T, k.T)
	r := fmt.Sprintf("(mk_%s (store (%s.dom %s) %s false) (%s.val %s) (ite %s (- (%s.card %s) 1) (%s.card %s)))",
		so, so, m.T, k.T, so, m.T, present, so, m.T, so, m.T)
	return f.name("m", Val{T: r, Ty: m.Ty})
}
