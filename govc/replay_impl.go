package main

import (
	"bytes"
	"context"
	"encoding/json"
	"fmt"
	"go/types"
	"os"
	"os/exec"
	"path/filepath"
	"sort"
	"strings"
	"time"
)

// parseModel parses "((name value) (name value) ...)" as printed by get-value.
func parseModel(s string) map[string]string {
	out := map[string]string{}
	s = strings.TrimSpace(s)
	for _, pair := range splitSexpArgs("(x " + strings.TrimSuffix(strings.TrimPrefix(s, "("), ")") + ")")[1:] {
		kv := splitSexpArgs(pair)
		if len(kv) == 2 {
			out[kv[0]] = expandLets(kv[1])
		}
	}
	return out
}

type replayGen struct {
	pkg     *types.Package
	imports map[string]string // path -> alias
	sorts   *Sorts
	usedNil bool
	abs     *abstractor
	unknowns [][2]string
}

func (g *replayGen) typeStr(t types.Type) string {
	return types.TypeString(t, func(p *types.Package) string {
		if p == g.pkg {
			return ""
		}
		if a, ok := g.imports[p.Path()]; ok {
			return a
		}
		a := fmt.Sprintf("vp%d_%s", len(g.imports), p.Name())
		g.imports[p.Path()] = a
		return a
	})
}

func smtNum(v string) (string, bool) {
	v = strings.TrimSpace(v)
	if strings.HasPrefix(v, "(- ") && strings.HasSuffix(v, ")") {
		inner, ok := smtNum(v[3 : len(v)-1])
		return "-" + inner, ok
	}
	if v == "" {
		return "", false
	}
	for _, c := range v {
		if c < '0' || c > '9' {
			return "", false
		}
	}
	return v, true
}

// goLit converts an SMT model value into a Go expression of type t.
func (g *replayGen) goLit(v string, t types.Type) (string, error) {
	t = types.Unalias(t)
	switch u := t.Underlying().(type) {
	case *types.Basic:
		switch {
		case u.Info()&types.IsBoolean != 0:
			if v == "true" || v == "false" {
				return g.typeStr(t) + "(" + v + ")", nil
			}
		case u.Info()&types.IsInteger != 0:
			if n, ok := smtNum(v); ok {
				return g.typeStr(t) + "(" + n + ")", nil
			}
		case u.Info()&types.IsString != 0:
			// abstract string element: the empty string, or a distinct placeholder string
			if z, ok := g.abs.zero[strings.TrimSpace(v)]; ok && z == "str_empty" {
				return g.typeStr(t) + `("")`, nil
			}
			if _, k, ok := tokenIndex(v); ok {
				s := fmt.Sprintf("vps%d", k)
				g.abs.byLit["str:"+hexOf([]byte(s))] = g.abs.rewrite(strings.TrimSpace(v))
				return fmt.Sprintf("%s(%q)", g.typeStr(t), s), nil
			}
		}
		return "", fmt.Errorf("no Go literal for %s value %q", t, truncateStr(v, 40))
	case *types.Struct:
		ss := g.sorts.StructOf(t)
		if ss == nil {
			return "", fmt.Errorf("unknown struct sort for %s", t)
		}
		args := splitSexpArgs(v)
		if len(ss.Fields) == 0 {
			return g.typeStr(t) + "{}", nil
		}
		if len(args) != len(ss.Fields)+1 || args[0] != ss.Ctor {
			return "", fmt.Errorf("unexpected struct value %q", truncateStr(v, 60))
		}
		var parts []string
		for i, f := range ss.Fields {
			if f.Name == "_" || f.Name == "#rest" {
				continue // pruned fields stay at their zero value
			}
			gf := goField(u, f.Name)
			if gf == nil || !gf.Exported() && gf.Pkg() != g.pkg {
				// cannot set a foreign unexported field: only acceptable if it is the zero value
				continue
			}
			fl, err := g.goLit(args[i+1], f.Type)
			if err != nil {
				// leave the field at its zero value when it cannot be expressed and is opaque
				if isOpaqueForReplay(f.Type) {
					continue
				}
				return "", err
			}
			parts = append(parts, f.Name+": "+fl)
		}
		return g.typeStr(t) + "{" + strings.Join(parts, ", ") + "}", nil
	case *types.Interface:
		// opaque handle (logger, ledger, ...): replay with nil; a path that uses it panics and is
		// then reported as a panic of the real code, which the caller classifies
		g.usedNil = true
		return "(" + g.typeStr(t) + ")(nil)", nil
	case *types.Pointer:
		args := splitSexpArgs(v)
		if len(args) == 3 {
			if args[1] == "true" {
				return "(" + g.typeStr(t) + ")(nil)", nil
			}
			inner, err := g.goLit(args[2], u.Elem())
			if err != nil {
				return "", err
			}
			if _, isStruct := u.Elem().Underlying().(*types.Struct); isStruct {
				return "&" + inner, nil
			}
			return fmt.Sprintf("func() %s { x := %s; return &x }()", g.typeStr(t), inner), nil
		}
	case *types.Array:
		if n, isBA := baLen(t); isBA {
			// abstract byte-array element: the zero array, or a distinct placeholder value
			so := fmt.Sprintf("BA%d", n)
			if z, ok := g.abs.zero[strings.TrimSpace(v)]; ok && z == so+".zero" {
				return g.typeStr(t) + "{}", nil
			}
			if _, k, ok := tokenIndex(v); ok && n >= 4 {
				bs := make([]byte, n)
				copy(bs, baLiteralBytes(k))
				g.abs.byLit[fmt.Sprintf("ba%d:%s", n, hexOf(bs))] = g.abs.rewrite(strings.TrimSpace(v))
				lb := baLiteralBytes(k)
				return fmt.Sprintf("%s{%d, %d, %d, %d}", g.typeStr(t), lb[0], lb[1], lb[2], lb[3]), nil
			}
			return "", fmt.Errorf("no Go literal for byte array value %q", truncateStr(v, 40))
		}
		elems, def, err := arrayModel(v)
		if err == nil && u.Len() <= 4096 {
			var parts []string
			for i := int64(0); i < u.Len(); i++ {
				ev, ok := elems[fmt.Sprint(i)]
				if !ok {
					ev = def
				}
				el, err := g.goLit(ev, u.Elem())
				if err != nil {
					return "", err
				}
				parts = append(parts, el)
			}
			return g.typeStr(t) + "{" + strings.Join(parts, ", ") + "}", nil
		}
	case *types.Slice:
		args := splitSexpArgs(v)
		if len(args) == 5 {
			off, ok1 := smtNum(args[2])
			ln, ok2 := smtNum(args[3])
			if ok1 && ok2 {
				var offN, lenN int
				fmt.Sscan(off, &offN)
				fmt.Sscan(ln, &lenN)
				if offN < 0 {
					return "(" + g.typeStr(t) + ")(nil)", nil // offset -1 encodes the nil slice
				}
				if lenN >= 0 && lenN <= 4096 {
					elems, def, err := arrayModel(args[1])
					if err == nil {
						var parts []string
						for i := 0; i < lenN; i++ {
							ev, ok := elems[fmt.Sprint(offN+i)]
							if !ok {
								ev = def
							}
							el, err := g.goLit(ev, u.Elem())
							if err != nil {
								return "", err
							}
							parts = append(parts, el)
						}
						return g.typeStr(t) + "{" + strings.Join(parts, ", ") + "}", nil
					}
				}
			}
		}
	}
	return "", fmt.Errorf("no Go literal for %s value %q", t, truncateStr(v, 60))
}

func hexOf(b []byte) string { return fmt.Sprintf("%x", b) }

// goField finds the Go struct field with the given name (nil for the synthetic "#rest").
func goField(st *types.Struct, name string) *types.Var {
	for i := 0; i < st.NumFields(); i++ {
		if st.Field(i).Name() == name {
			return st.Field(i)
		}
	}
	return nil
}

func isOpaqueForReplay(t types.Type) bool {
	switch t.Underlying().(type) {
	case *types.Interface, *types.Signature, *types.Chan, *types.Map:
		return true
	}
	return false
}

// arrayModel decodes ((as const ...) d) / (store a i v) array values.
func arrayModel(v string) (map[string]string, string, error) {
	elems := map[string]string{}
	for {
		args := splitSexpArgs(v)
		if len(args) == 4 && args[0] == "store" {
			idx, ok := smtNum(args[2])
			if !ok {
				return nil, "", fmt.Errorf("non-numeric index")
			}
			if _, seen := elems[idx]; !seen {
				elems[idx] = args[3]
			}
			v = args[1]
			continue
		}
		if len(args) == 2 && strings.HasPrefix(args[0], "(as const") {
			return elems, args[1], nil
		}
		return nil, "", fmt.Errorf("unsupported array model %q", truncateStr(v, 60))
	}
}

// smtPrinter returns a Go expression (of type string) that renders expr (of type t) as an SMT term.
func (g *replayGen) smtPrinter(expr string, t types.Type, depth int) (string, bool) {
	t = types.Unalias(t)
	if depth > 8 {
		return "", false
	}
	switch u := t.Underlying().(type) {
	case *types.Basic:
		switch {
		case u.Info()&types.IsBoolean != 0:
			return fmt.Sprintf("fmt.Sprint(bool(%s))", expr), true
		case u.Info()&types.IsUnsigned != 0:
			return fmt.Sprintf("fmt.Sprint(uint64(%s))", expr), true
		case u.Info()&types.IsInteger != 0:
			return fmt.Sprintf("vpSigned(int64(%s))", expr), true
		case u.Info()&types.IsString != 0:
			return fmt.Sprintf("\"str:\" + vpHex([]byte(string(%s)))", expr), true
		}
	case *types.Struct:
		ss := g.sorts.StructOf(t)
		if ss == nil {
			return "", false
		}
		if len(ss.Fields) == 0 {
			return fmt.Sprintf("%q", ss.Ctor), true
		}
		parts := []string{fmt.Sprintf("%q", "("+ss.Ctor)}
		for _, f := range ss.Fields {
			var p string
			ok := false
			if gf := goField(u, f.Name); gf != nil && (gf.Exported() || gf.Pkg() == g.pkg) {
				p, ok = g.smtPrinter("("+expr+")."+f.Name, f.Type, depth+1)
			}
			if !ok {
				// unprintable field: a named unknown, declared when the clause is evaluated
				p = fmt.Sprintf("%q", g.unknown(g.sorts.SortOf(f.Type)))
			}
			parts = append(parts, `" "`, p)
		}
		parts = append(parts, `")"`)
		return strings.Join(parts, " + "), true
	case *types.Array:
		if u.Len() > 4096 {
			return "", false
		}
		if n, isBA := baLen(t); isBA {
			return fmt.Sprintf("func() string { vpa := %s; return \"ba%d:\" + vpHex(vpa[:]) }()", expr, n), true
		}
		ep, ok := g.smtPrinter("("+expr+")[vpi]", u.Elem(), depth+1)
		if !ok {
			return "", false
		}
		return fmt.Sprintf("vpArray(%d, %q, %q, func(vpi int) string { return %s })", u.Len(), g.sorts.SortOf(u.Elem()), g.sorts.Zero(u.Elem()), ep), true
	case *types.Slice:
		ep, ok := g.smtPrinter("("+expr+")[vpi]", u.Elem(), depth+1)
		if !ok {
			return "", false
		}
		so := g.sorts.SortOf(t)
		return fmt.Sprintf("\"(mk_%s \" + vpArray(len(%s), %q, %q, func(vpi int) string { return %s }) + fmt.Sprintf(\" %%s %%d %%d)\", vpOff(%s == nil), len(%s), cap(%s))", so, expr, g.sorts.SortOf(u.Elem()), g.sorts.Zero(u.Elem()), ep, expr, expr, expr), true
	case *types.Interface:
		if g.sorts.SortOf(t) == "Err" {
			return fmt.Sprintf("vpErr(%s)", expr), true
		}
	}
	return "", false
}

func (g *replayGen) unknown(sort string) string {
	n := fmt.Sprintf("vpunk!%d", len(g.unknowns))
	g.unknowns = append(g.unknowns, [2]string{n, sort})
	return n
}

func replayImpl(w *World, root string, rep *OblReport, workDir string) (string, string) {
	o := rep.obl
	c := o.Ctx
	if c == nil || c.fnSrc == nil {
		return "REPLAY-UNAVAILABLE", "no function attached to this obligation (lemma)"
	}
	if o.Kind == "loop" || o.Kind == "assert" {
		return "REPLAY-UNAVAILABLE", "obligation concerns an intermediate state (loop invariant / in-body assertion); the model was not replayed"
	}
	model := parseModel(rep.Model)
	src := c.fnSrc
	g := &replayGen{pkg: src.Pkg.Types, imports: map[string]string{}, sorts: c.sorts, abs: newAbstractor(model)}
	sig := src.Obj.Type().(*types.Signature)
	var inLits []string
	inSMT := map[string]string{}
	for _, in := range c.inputs {
		mv, ok := model[in.Term]
		if !ok {
			return "REPLAY-UNAVAILABLE", "model lacks input " + in.Name
		}
		inSMT[in.Name] = g.abs.rewrite(mv)
		lit, err := g.goLit(mv, in.Type)
		if err != nil {
			return "REPLAY-UNAVAILABLE", "input " + in.Name + ": " + err.Error()
		}
		inLits = append(inLits, lit)
	}
	// build the call
	var b strings.Builder
	var body strings.Builder
	idx := 0
	recvName := ""
	if r := sig.Recv(); r != nil {
		recvName = "vpRecv"
		if r.Name() == "" || r.Name() == "_" {
			// receiver not bound as input: use zero value
			fmt.Fprintf(&body, "\tvar vpRecv %s\n", g.typeStr(c.instType(r.Type())))
		} else {
			fmt.Fprintf(&body, "\tvpRecv := %s\n", inLits[idx])
			idx++
		}
	}
	var argNames []string
	var ptrParams []*types.Var
	if r := sig.Recv(); r != nil {
		if _, isPtr := r.Type().Underlying().(*types.Pointer); isPtr && r.Name() != "" && r.Name() != "_" {
			ptrParams = append(ptrParams, r)
		}
	}
	for i := 0; i < sig.Params().Len(); i++ {
		p := sig.Params().At(i)
		an := fmt.Sprintf("vpArg%d", i)
		if p.Name() == "" || p.Name() == "_" {
			fmt.Fprintf(&body, "\tvar %s %s\n", an, g.typeStr(c.instType(p.Type())))
		} else {
			fmt.Fprintf(&body, "\t%s := %s\n", an, inLits[idx])
			idx++
			if _, isPtr := p.Type().Underlying().(*types.Pointer); isPtr {
				ptrParams = append(ptrParams, p)
			}
		}
		if sig.Variadic() && i == sig.Params().Len()-1 {
			an += "..."
		}
		argNames = append(argNames, an)
	}
	callee := src.Obj.Name()
	if tps := sig.TypeParams(); tps != nil && tps.Len() > 0 {
		var tas []string
		for i := 0; i < tps.Len(); i++ {
			tas = append(tas, g.typeStr(c.instType(tps.At(i))))
		}
		callee += "[" + strings.Join(tas, ", ") + "]"
	}
	if recvName != "" {
		callee = recvName + "." + callee
	}
	var resNames []string
	for i := 0; i < sig.Results().Len(); i++ {
		resNames = append(resNames, fmt.Sprintf("vpRes%d", i))
	}
	fmt.Fprintf(&body, "\tfmt.Println(\"VERIF-REPLAY-CALL\")\n")
	if len(resNames) > 0 {
		fmt.Fprintf(&body, "\t%s := %s(%s)\n", strings.Join(resNames, ", "), callee, strings.Join(argNames, ", "))
	} else {
		fmt.Fprintf(&body, "\t%s(%s)\n", callee, strings.Join(argNames, ", "))
	}
	printable := true
	for i := 0; i < sig.Results().Len(); i++ {
		rt := c.instType(sig.Results().At(i).Type())
		p, ok := g.smtPrinter(resNames[i], rt, 0)
		if !ok {
			fmt.Fprintf(&body, "\t_ = %s\n\tfmt.Println(\"VERIF-REPLAY-OUT r%d ?\")\n", resNames[i], i)
			printable = false
			continue
		}
		fmt.Fprintf(&body, "\tfmt.Println(\"VERIF-REPLAY-OUT r%d \" + %s)\n", i, p)
	}
	for _, pp := range ptrParams {
		nm := "vpRecv"
		if pp != sig.Recv() {
			for i := 0; i < sig.Params().Len(); i++ {
				if sig.Params().At(i) == pp {
					nm = fmt.Sprintf("vpArg%d", i)
				}
			}
		}
		pt := c.instType(pp.Type()).Underlying().(*types.Pointer)
		p, ok := g.smtPrinter("*"+nm, pt.Elem(), 0)
		if !ok {
			fmt.Fprintf(&body, "\tfmt.Println(\"VERIF-REPLAY-OUT post:%s ?\")\n", pp.Name())
			continue
		}
		so := c.sorts.SortOf(c.instType(pp.Type()))
		fmt.Fprintf(&body, "\tfmt.Println(\"VERIF-REPLAY-OUT post:%s (mk_%s false \" + %s + \")\")\n", pp.Name(), so, p)
	}
	fmt.Fprintf(&b, "package %s\n\nimport (\n\t\"fmt\"\n\t\"testing\"\n", src.Pkg.Types.Name())
	var ips []string
	for p := range g.imports {
		ips = append(ips, p)
	}
	sort.Strings(ips)
	for _, p := range ips {
		fmt.Fprintf(&b, "\t%s %q\n", g.imports[p], p)
	}
	b.WriteString(")\n\nfunc vpSigned(x int64) string {\n\tif x < 0 {\n\t\tif x == -9223372036854775808 {\n\t\t\treturn \"(- 9223372036854775808)\"\n\t\t}\n\t\treturn fmt.Sprintf(\"(- %d)\", -x)\n\t}\n\treturn fmt.Sprint(x)\n}\n\n")
	b.WriteString("func vpArray(n int, es, zero string, at func(int) string) string {\n\ts := \"((as const (Array Int \" + es + \")) \" + zero + \")\"\n\tfor i := 0; i < n; i++ {\n\t\ts = \"(store \" + s + \" \" + fmt.Sprint(i) + \" \" + at(i) + \")\"\n\t}\n\treturn s\n}\n\n")
	b.WriteString("func vpHex(b []byte) string { return fmt.Sprintf(\"%x\", b) }\n\n")
	b.WriteString("func vpOff(isNil bool) string {\n\tif isNil {\n\t\treturn \"(- 1)\"\n\t}\n\treturn \"0\"\n}\n\n")
	b.WriteString("func vpErr(e error) string {\n\tif e == nil {\n\t\treturn \"err_nil\"\n\t}\n\treturn \"vp_some_err\"\n}\n\n")
	b.WriteString("func TestVerifReplay(t *testing.T) {\n\tdefer func() {\n\t\tif r := recover(); r != nil {\n\t\t\tfmt.Printf(\"VERIF-REPLAY-PANIC %v\\n\", r)\n\t\t}\n\t}()\n")
	b.WriteString(body.String())
	b.WriteString("\tfmt.Println(\"VERIF-REPLAY-DONE\")\n}\n")

	pkgDir := filepath.Dir(w.Fset.Position(src.Decl.Pos()).Filename)
	testFile := filepath.Join(workDir, sanitizeFile(rep.Name)+"_replay_test.go")
	if err := os.WriteFile(testFile, []byte(b.String()), 0o644); err != nil {
		return "REPLAY-UNAVAILABLE", err.Error()
	}
	// overlay = cgo overlay + the injected test
	var base struct{ Replace map[string]string }
	ob, _ := os.ReadFile(w.Overlay)
	json.Unmarshal(ob, &base)
	if base.Replace == nil {
		base.Replace = map[string]string{}
	}
	base.Replace[filepath.Join(pkgDir, "zz_verif_replay_test.go")] = testFile
	ovb, _ := json.Marshal(base)
	ovFile := filepath.Join(workDir, sanitizeFile(rep.Name)+"_ov.json")
	os.WriteFile(ovFile, ovb, 0o644)
	ctx, cancel := context.WithTimeout(context.Background(), 240*time.Second)
	defer cancel()
	cmd := exec.CommandContext(ctx, "go", "test", "-tags", "verif", "-overlay", ovFile, "-vet=off", "-v", "-count=1", "-timeout", "60s", "-run", "^TestVerifReplay$", ".")
	cmd.Dir = pkgDir
	var out bytes.Buffer
	cmd.Stdout = &out
	cmd.Stderr = &out
	cmd.Run()
	txt := out.String()
	detail := map[string]any{"inputs": inSMT, "test_source": b.String()}
	if !strings.Contains(txt, "VERIF-REPLAY-CALL") {
		detail["go_test_output"] = truncateStr(txt, 3000)
		db, _ := json.Marshal(detail)
		return "REPLAY-UNAVAILABLE", "replay test did not run: " + string(db)
	}
	outs := map[string]string{}
	panicked := ""
	for _, ln := range strings.Split(txt, "\n") {
		if strings.HasPrefix(ln, "VERIF-REPLAY-OUT ") {
			rest := strings.TrimPrefix(ln, "VERIF-REPLAY-OUT ")
			k := strings.Index(rest, " ")
			outs[rest[:k]] = g.abs.rewriteConcrete(rest[k+1:])
		}
		if strings.HasPrefix(ln, "VERIF-REPLAY-PANIC ") {
			panicked = strings.TrimPrefix(ln, "VERIF-REPLAY-PANIC ")
		}
	}
	detail["outputs"] = outs
	if panicked != "" && (strings.Contains(panicked, "nil pointer") || strings.Contains(panicked, "invalid memory address")) {
		// inputs rebuilt from a model leave opaque parts (interfaces, pruned fields, parents) nil: a nil
		// dereference during replay is an artefact of that, never evidence about the obligation
		detail["panic"] = panicked
		db, _ := json.Marshal(detail)
		return "REPLAY-UNAVAILABLE", "the replay dereferenced a nil part of the reconstructed input (opaque state that the model does not describe): " + string(db)
	}
	if panicked != "" {
		detail["panic"] = panicked
		db, _ := json.Marshal(detail)
		return "REPLAY-CONFIRMED", "the real function panics on the model input: " + string(db)
	}
	if o.Kind == "panic" || o.Kind == "call" {
		db, _ := json.Marshal(detail)
		return "REPLAY-NOT-CONFIRMED", "the real function did not panic on the model input: " + string(db)
	}
	if o.Kind != "ensures" || o.Clause == nil {
		db, _ := json.Marshal(detail)
		return "REPLAY-UNAVAILABLE", "obligation kind " + o.Kind + " is not evaluated on concrete outputs: " + string(db)
	}
	_ = printable
	// evaluate the failed clause on the concrete inputs/outputs
	verdict, why := evalClauseConcrete(w, c, o, inSMT, outs, workDir, rep.Name, g.unknowns, g.abs)
	detail["clause_eval"] = why
	db, _ := json.Marshal(detail)
	return verdict, string(db)
}

// evalClauseConcrete re-evaluates the contract clause with parameters bound to the model's values
// and results bound to what the real function returned.
func evalClauseConcrete(w *World, c *Ctx, o *Obligation, inSMT, outs map[string]string, workDir, name string, unknowns [][2]string, abs *abstractor) (verdict, why string) {
	defer func() {
		if r := recover(); r != nil {
			verdict, why = "REPLAY-UNAVAILABLE", fmt.Sprint("clause evaluation failed: ", r)
		}
	}()
	src := c.fnSrc
	sig := src.Obj.Type().(*types.Signature)
	nc := newCtx(w, c.specs, "replay")
	nc.sorts = c.sorts
	// abstract elements of uninterpreted sorts: declared constants, pairwise distinct
	absDecls, absFacts := abs.decls()
	nc.decls = append(nc.decls, absDecls...)
	nc.axioms = append(nc.axioms, absFacts...)
	for _, u := range unknowns {
		nc.decls = append(nc.decls, fmt.Sprintf("(declare-const %s %s)", u[0], u[1]))
	}
	f := &Frame{c: nc, fn: src, info: src.Pkg.TypesInfo, top: true, tsubst: c.tsubst}
	typeArgs := map[string]types.Type{}
	for tp, t := range c.tsubst {
		typeArgs[tp.Obj().Name()] = t
	}
	entry := &SpecEnv{names: map[string]Val{}, pkg: src.Pkg.Types, typeArgs: typeArgs, macros: c.contract.macros()}
	for _, in := range c.inputs {
		entry.names[in.Name] = Val{T: inSMT[in.Name], Ty: in.Type}
	}
	post := &SpecEnv{names: map[string]Val{}, old: entry, pkg: entry.pkg, typeArgs: typeArgs, macros: entry.macros}
	for k, v := range entry.names {
		post.names[k] = v
	}
	for i := 0; i < sig.Results().Len(); i++ {
		v, ok := outs[fmt.Sprintf("r%d", i)]
		if !ok || v == "?" {
			// unknown output: a fresh constant (makes the verdict inconclusive if the clause depends on it)
			rt := c.instType(sig.Results().At(i).Type())
			v = nc.fresh("unk", nc.sorts.SortOf(rt))
		}
		if v == "vp_some_err" {
			v = nc.fresh("someerr", "Err")
			nc.axioms = append(nc.axioms, fmt.Sprintf("(not (= %s err_nil))", v))
		}
		rt := c.instType(sig.Results().At(i).Type())
		post.names[fmt.Sprintf("r%d", i)] = Val{T: v, Ty: rt}
		if n := sig.Results().At(i).Name(); n != "" && n != "_" {
			post.names[n] = Val{T: v, Ty: rt}
		}
	}
	for k, v := range outs {
		if strings.HasPrefix(k, "post:") && v != "?" {
			nm := strings.TrimPrefix(k, "post:")
			if old, ok := entry.names[nm]; ok {
				post.names[nm] = Val{T: v, Ty: old.Ty}
			}
		}
	}
	st := &State{env: map[types.Object]Val{}, gh: map[string]Val{}}
	g := f.specBool(st, o.Clause.Expr, post)
	q := &Obligation{Name: name + "-concrete", PC: st.pc, Goal: g, Ctx: nc, Full: true}
	neg, _ := discharge(buildQuery(q, true, false), workDir, q.Name+"-neg", 10, false)
	pos, _ := discharge(buildQuery(q, false, false), workDir, q.Name+"-pos", 10, false)
	switch {
	case neg.Result == "sat" && pos.Result == "unsat":
		return "REPLAY-CONFIRMED", "clause is false on the real function's outputs: " + o.Clause.Src
	case neg.Result == "unsat":
		return "REPLAY-NOT-CONFIRMED", "clause holds on the real function's outputs (spurious model: an abstraction artefact)"
	}
	return "REPLAY-UNAVAILABLE", fmt.Sprintf("clause evaluation inconclusive (not-clause: %s, clause: %s)", neg.Result, pos.Result)
}
