package main

func replayImpl(w *World, root string, rep *OblReport, workDir string) (string, string) {
	return "REPLAY-UNAVAILABLE", "replay not implemented for this input shape"
}
