package main

import (
	"fmt"
	"os"
	"path/filepath"
	"regexp"
	"strconv"
	"strings"
)

// ---------- spec expression AST ----------

type SExpr interface{ String() string }

type (
	SIdent  struct{ Name string }
	SNum    struct{ Val string }
	SStr    struct{ Val string }
	SBool   struct{ Val bool }
	SUnary  struct{ Op string; X SExpr }
	SBinary struct {
		Op   string
		X, Y SExpr
	}
	SCall struct {
		Fun  SExpr
		Args []SExpr
	}
	SSel struct {
		X    SExpr
		Name string
	}
	SIndex struct{ X, I SExpr }
	SSlice struct{ X, Lo, Hi SExpr }
	SQuant struct {
		Forall bool
		Vars   []SVar
		Body   SExpr
		Insts  [][]SExpr // optional explicit instantiations: by inst(...)
	}
	SLet struct {
		Name string
		Val  SExpr
		Body SExpr
	}
)

type SVar struct{ Name, Type string }

func (e *SIdent) String() string  { return e.Name }
func (e *SNum) String() string    { return e.Val }
func (e *SStr) String() string    { return strconv.Quote(e.Val) }
func (e *SBool) String() string   { return fmt.Sprint(e.Val) }
func (e *SUnary) String() string  { return e.Op + e.X.String() }
func (e *SBinary) String() string { return "(" + e.X.String() + " " + e.Op + " " + e.Y.String() + ")" }
func (e *SCall) String() string {
	var a []string
	for _, x := range e.Args {
		a = append(a, x.String())
	}
	return e.Fun.String() + "(" + strings.Join(a, ", ") + ")"
}
func (e *SSel) String() string   { return e.X.String() + "." + e.Name }
func (e *SIndex) String() string { return e.X.String() + "[" + e.I.String() + "]" }
func (e *SSlice) String() string {
	lo, hi := "", ""
	if e.Lo != nil {
		lo = e.Lo.String()
	}
	if e.Hi != nil {
		hi = e.Hi.String()
	}
	return e.X.String() + "[" + lo + ":" + hi + "]"
}
func (e *SQuant) String() string {
	q := "exists"
	if e.Forall {
		q = "forall"
	}
	var vs []string
	for _, v := range e.Vars {
		vs = append(vs, v.Name+" "+v.Type)
	}
	return "(" + q + " " + strings.Join(vs, ", ") + " :: " + e.Body.String() + ")"
}
func (e *SLet) String() string { return "(let " + e.Name + " = " + e.Val.String() + " in " + e.Body.String() + ")" }

// ---------- lexer ----------

type tok struct {
	kind string // id num str op eof
	val  string
}

func lex(s string) ([]tok, error) {
	var out []tok
	i := 0
	ops := []string{"<==>", "==>", "::", "==", "!=", "<=", ">=", "&&", "||", "<<", ">>", "&^", "+", "-", "*", "/", "%", "<", ">", "!", "(", ")", "[", "]", ",", ".", ":", "^", "&", "|", "?", "=", "{", "}"}
	for i < len(s) {
		c := s[i]
		switch {
		case c == ' ' || c == '\t' || c == '\n':
			i++
		case c >= '0' && c <= '9':
			j := i
			for j < len(s) && (s[j] >= '0' && s[j] <= '9' || s[j] == '_' || s[j] == 'x' || (j > i+1 && s[i+1] == 'x' && (s[j] >= 'a' && s[j] <= 'f' || s[j] >= 'A' && s[j] <= 'F'))) {
				j++
			}
			out = append(out, tok{"num", strings.ReplaceAll(s[i:j], "_", "")})
			i = j
		case c == '_' || c == '#' || c >= 'a' && c <= 'z' || c >= 'A' && c <= 'Z':
			j := i + 1
			for j < len(s) && (s[j] == '_' || s[j] == '\'' || s[j] == '#' || s[j] >= 'a' && s[j] <= 'z' || s[j] >= 'A' && s[j] <= 'Z' || s[j] >= '0' && s[j] <= '9') {
				j++
			}
			out = append(out, tok{"id", s[i:j]})
			i = j
		case c == '"':
			j := i + 1
			for j < len(s) && s[j] != '"' {
				if s[j] == '\\' {
					j++
				}
				j++
			}
			if j >= len(s) {
				return nil, fmt.Errorf("unterminated string")
			}
			v, err := strconv.Unquote(s[i : j+1])
			if err != nil {
				return nil, err
			}
			out = append(out, tok{"str", v})
			i = j + 1
		default:
			matched := false
			for _, op := range ops {
				if strings.HasPrefix(s[i:], op) {
					out = append(out, tok{"op", op})
					i += len(op)
					matched = true
					break
				}
			}
			if !matched {
				return nil, fmt.Errorf("unexpected character %q in spec %q", c, s)
			}
		}
	}
	out = append(out, tok{"eof", ""})
	return out, nil
}

// ---------- parser ----------

type sparser struct {
	toks []tok
	pos  int
	src  string
	noIn bool // inside the bound value of `with x = e in ...`: `in` ends the value
}

func parseSpecExpr(s string) (e SExpr, err error) {
	toks, err := lex(s)
	if err != nil {
		return nil, err
	}
	p := &sparser{toks: toks, src: s}
	defer func() {
		if r := recover(); r != nil {
			if pe, ok := r.(specErr); ok {
				err = fmt.Errorf("%s (in %q)", string(pe), s)
				return
			}
			panic(r)
		}
	}()
	e = p.expr()
	if p.peek().kind != "eof" {
		p.fail("unexpected token %q", p.peek().val)
	}
	return e, nil
}

type specErr string

func (p *sparser) fail(f string, a ...any) { panic(specErr(fmt.Sprintf(f, a...))) }
func (p *sparser) peek() tok                { return p.toks[p.pos] }
func (p *sparser) next() tok                { t := p.toks[p.pos]; p.pos++; return t }
func (p *sparser) isOp(v string) bool       { t := p.peek(); return t.kind == "op" && t.val == v }
func (p *sparser) isID(v string) bool       { t := p.peek(); return t.kind == "id" && t.val == v }
func (p *sparser) expectOp(v string) {
	if !p.isOp(v) {
		p.fail("expected %q, got %q", v, p.peek().val)
	}
	p.pos++
}

func (p *sparser) expr() SExpr {
	if p.isID("forall") || p.isID("exists") {
		q := &SQuant{Forall: p.next().val == "forall"}
		for {
			name := p.next()
			if name.kind != "id" {
				p.fail("expected bound variable name")
			}
			names := []string{name.val}
			// allow "i, j int"
			ty := p.typeName()
			for _, n := range names {
				q.Vars = append(q.Vars, SVar{n, ty})
			}
			if p.isOp(",") {
				p.pos++
				continue
			}
			break
		}
		p.expectOp("::")
		q.Body = p.expr()
		return q
	}
	if p.isID("with") {
		// expression-level binding: with x = e in body   (`let` is the contract-level clause keyword)
		p.pos++
		name := p.next().val
		p.expectOp("=")
		saved := p.noIn
		p.noIn = true
		v := p.iff()
		p.noIn = saved
		if !p.isID("in") {
			p.fail("expected 'in'")
		}
		p.pos++
		body := p.expr()
		return &SLet{name, v, body}
	}
	return p.iff()
}

// typeName parses a type: every token up to a top-level "," or "::" (returned as text)
func (p *sparser) typeName() string {
	var b strings.Builder
	depth := 0
	for {
		t := p.peek()
		if t.kind == "eof" {
			break
		}
		if t.kind == "op" {
			if depth == 0 && (t.val == "," || t.val == "::") {
				break
			}
			if t.val == "[" || t.val == "(" {
				depth++
			}
			if t.val == "]" || t.val == ")" {
				depth--
			}
		}
		b.WriteString(t.val)
		p.pos++
	}
	if b.Len() == 0 {
		p.fail("expected type name")
	}
	return b.String()
}

func (p *sparser) iff() SExpr {
	x := p.implies()
	for p.isOp("<==>") {
		p.pos++
		y := p.implies()
		x = &SBinary{"<==>", x, y}
	}
	return x
}

func (p *sparser) implies() SExpr {
	x := p.ternary()
	if p.isOp("==>") {
		p.pos++
		var y SExpr
		if p.isID("forall") || p.isID("exists") || p.isID("with") {
			y = p.expr()
		} else {
			y = p.implies()
		}
		return &SBinary{"==>", x, y}
	}
	return x
}

func (p *sparser) ternary() SExpr {
	c := p.or()
	if p.isOp("?") {
		p.pos++
		a := p.ternary()
		p.expectOp(":")
		b := p.ternary()
		return &SCall{&SIdent{"ite"}, []SExpr{c, a, b}}
	}
	return c
}

func (p *sparser) or() SExpr {
	x := p.and()
	for p.isOp("||") {
		p.pos++
		x = &SBinary{"||", x, p.and()}
	}
	return x
}
func (p *sparser) and() SExpr {
	x := p.cmp()
	for p.isOp("&&") {
		p.pos++
		var y SExpr
		if p.isID("forall") || p.isID("exists") {
			y = p.expr()
		} else {
			y = p.cmp()
		}
		x = &SBinary{"&&", x, y}
	}
	return x
}
func (p *sparser) cmp() SExpr {
	x := p.add()
	first := true
	var res SExpr
	for {
		t := p.peek()
		if t.kind == "op" && (t.val == "==" || t.val == "!=" || t.val == "<" || t.val == "<=" || t.val == ">" || t.val == ">=") {
			p.pos++
			y := p.add()
			c := &SBinary{t.val, x, y}
			if first {
				res = c
			} else {
				res = &SBinary{"&&", res, c} // chained a <= b < c
			}
			first = false
			x = y
			continue
		}
		if t.kind == "id" && t.val == "in" && !p.noIn {
			// membership: k in m ; only valid where an expression is expected
			p.pos++
			y := p.add()
			c := &SCall{&SIdent{"#in"}, []SExpr{x, y}}
			if first {
				res = c
			} else {
				res = &SBinary{"&&", res, c}
			}
			first = false
			x = y
			continue
		}
		break
	}
	if res == nil {
		return x
	}
	return res
}
func (p *sparser) add() SExpr {
	x := p.mul()
	for p.isOp("+") || p.isOp("-") || p.isOp("|") {
		op := p.next().val
		x = &SBinary{op, x, p.mul()}
	}
	return x
}
func (p *sparser) mul() SExpr {
	x := p.unary()
	for p.isOp("*") || p.isOp("/") || p.isOp("%") || p.isOp("<<") || p.isOp(">>") || p.isOp("&") || p.isOp("&^") || p.isID("div") || p.isID("mod") {
		op := p.next().val
		x = &SBinary{op, x, p.unary()}
	}
	return x
}
func (p *sparser) unary() SExpr {
	if p.isOp("!") || p.isOp("-") || p.isOp("*") || p.isOp("&") {
		// unary * is pointer dereference (a binary * never starts an operand)
		op := p.next().val
		return &SUnary{op, p.unary()}
	}
	return p.pow()
}
func (p *sparser) pow() SExpr {
	x := p.postfix()
	if p.isOp("^") {
		p.pos++
		y := p.unary()
		return &SBinary{"^", x, y}
	}
	return x
}
func (p *sparser) postfix() SExpr {
	x := p.primary()
	for {
		switch {
		case p.isOp("."):
			p.pos++
			n := p.next()
			if n.kind != "id" {
				p.fail("expected field name after '.'")
			}
			x = &SSel{x, n.val}
		case p.isOp("["):
			p.pos++
			if p.isOp(":") {
				p.pos++
				var hi SExpr
				if !p.isOp("]") {
					hi = p.expr()
				}
				p.expectOp("]")
				x = &SSlice{x, nil, hi}
				continue
			}
			i := p.expr()
			if p.isOp(":") {
				p.pos++
				var hi SExpr
				if !p.isOp("]") {
					hi = p.expr()
				}
				p.expectOp("]")
				x = &SSlice{x, i, hi}
				continue
			}
			p.expectOp("]")
			x = &SIndex{x, i}
		case p.isOp("("):
			p.pos++
			var args []SExpr
			if id, ok := x.(*SIdent); ok && (id.Name == "zero" || id.Name == "max" || id.Name == "min") && (p.isOp("[") || p.isOp("*")) {
				// zero([32]byte), zero(*T), zero([]T): a type expression, kept as text for resolveType
				var sb strings.Builder
				depth := 0
				for !(p.isOp(")") && depth == 0) {
					t := p.next()
					if t.kind == "op" && t.val == "(" {
						depth++
					} else if t.kind == "op" && t.val == ")" {
						depth--
					}
					sb.WriteString(t.val)
				}
				args = append(args, &SIdent{sb.String()})
			}
			for !p.isOp(")") {
				args = append(args, p.expr())
				if p.isOp(",") {
					p.pos++
				}
			}
			p.expectOp(")")
			x = &SCall{x, args}
		default:
			return x
		}
	}
}
func (p *sparser) primary() SExpr {
	t := p.next()
	switch t.kind {
	case "num":
		return &SNum{t.val}
	case "str":
		return &SStr{t.val}
	case "id":
		switch t.val {
		case "true":
			return &SBool{true}
		case "false":
			return &SBool{false}
		}
		return &SIdent{t.val}
	case "op":
		if t.val == "(" {
			e := p.expr()
			p.expectOp(")")
			return e
		}
	}
	p.fail("unexpected token %q", t.val)
	return nil
}

// ---------- contract files ----------

type Clause struct {
	Label string
	Expr  SExpr
	Src   string
	Line  string // file:line
}

type LoopSpec struct {
	Invariants []Clause
	Each       []Clause // per-iteration postconditions (see execLoop)
	EachPost   []Clause // the same, after the post statement
	Unroll     int
	Decreases  *Clause
}

type Contract struct {
	Key        string // pkgpath.Func or pkgpath.Recv.Func
	PkgPath    string
	Name       string
	Insts      []map[string]string // type-parameter instantiations to verify
	Requires   []Clause
	Ensures    []Clause
	Lets       []SpecLet
	Loops      map[int]*LoopSpec
	AllowPanic map[string]string // anchor -> reason
	Trusted    string            // non-empty: body not verified (reason)
	Pure       bool
	Modifies   []SExpr
	ModifiesAll bool
	NoInline   bool
	Fieldwise  bool // field-wise joins and accessor folding (simp.go)
	Glue       bool // only assert/ensures/frame obligations are generated for this function
	Nilable    []string
	Asserts    []AssertAt
	File       string
	Ghost      []string
	Reveal     []string // opaque spec functions whose bodies this function's proof may use
	Inline     []string // callees executed transparently in this function's proof
}

type SpecLet struct {
	Name string
	Expr SExpr
}

type AssertAt struct {
	Anchor string // e.g. call:performPayout, lit:ensureAction
	Clause Clause
}

type SpecFunc struct {
	Name    string
	PkgPath string
	Params  []SVar
	Ret     string
	Body    SExpr // nil: uninterpreted
	Opaque  bool  // body used only by functions whose contract says `reveal <name>`
}

// Owns is an ownership condition on a struct field: only the listed functions of the package may
// mention the field (other than comparing it with nil).
type Owns struct {
	PkgPath, Type, Field string
	Allowed              []string
	Src                  string
}

var reCalls = regexp.MustCompile(`\bcalls\((\w+)\)`)

type Lemma struct {
	Name    string
	PkgPath string
	Expr    SExpr
	Src     string
	Axiom   bool
	Insts   []string
	KnownFindingExclusion SExpr
}

type Specs struct {
	Contracts map[string]*Contract
	SpecFuncs map[string]*SpecFunc // by pkgpath.name and bare name within package
	Lemmas    map[string]*Lemma
	Owns      map[string]*Owns // by pkgpath.Type.field
	Tracked   map[string]bool  // callee names counted by the ghost counters calls(Name)
	Files     []string
}

var labelRe = regexp.MustCompile(`^\[([A-Za-z0-9_]+)\]\s*`)

func newSpecs() *Specs {
	return &Specs{Contracts: map[string]*Contract{}, SpecFuncs: map[string]*SpecFunc{}, Lemmas: map[string]*Lemma{}, Owns: map[string]*Owns{}, Tracked: map[string]bool{}}
}

// loadSpecFile parses one contract file. pkgPath is the import path the file's contracts refer to
// (for files under /repo it is the package of the directory; std files declare it with "package <path>").
func (sp *Specs) loadSpecFile(path, pkgPath string) error {
	b, err := os.ReadFile(path)
	if err != nil {
		return err
	}
	sp.Files = append(sp.Files, path)
	type rawClause struct {
		text string
		line int
	}
	var clauses []rawClause
	for i, ln := range strings.Split(string(b), "\n") {
		t := strings.TrimSpace(ln)
		var body string
		switch {
		case strings.HasPrefix(t, "//@"):
			body = t[3:]
		case strings.HasPrefix(t, "// @"):
			body = t[4:]
		default:
			continue
		}
		// strip trailing comment " // ..."
		if k := strings.Index(body, " // "); k >= 0 {
			body = body[:k]
		}
		trim := strings.TrimSpace(body)
		if trim == "" {
			continue
		}
		for _, m := range reCalls.FindAllStringSubmatch(trim, -1) {
			sp.Tracked[m[1]] = true
		}
		first := strings.Fields(trim)[0]
		switch first {
		case "func", "spec", "lemma", "axiom", "requires", "ensures", "loop", "inst", "allow_panic", "trusted", "pure", "modifies", "let", "package", "assert", "noinline", "ghost", "reveal", "inline", "glue", "nilable", "owns", "fieldwise":
			clauses = append(clauses, rawClause{trim, i + 1})
		default:
			if len(clauses) == 0 {
				return fmt.Errorf("%s:%d: continuation without clause", path, i+1)
			}
			clauses[len(clauses)-1].text += " " + trim
		}
	}
	var cur *Contract
	mkClause := func(rest string, line int) (Clause, error) {
		c := Clause{Line: fmt.Sprintf("%s:%d", filepath.Base(path), line)}
		if m := labelRe.FindStringSubmatch(rest); m != nil {
			c.Label = m[1]
			rest = rest[len(m[0]):]
		}
		c.Src = rest
		e, err := parseSpecExpr(rest)
		if err != nil {
			return c, fmt.Errorf("%s:%d: %v", path, line, err)
		}
		c.Expr = e
		return c, nil
	}
	for _, rc := range clauses {
		fields := strings.Fields(rc.text)
		kw := fields[0]
		rest := strings.TrimSpace(rc.text[len(kw):])
		if kw != "func" && kw != "spec" && kw != "lemma" && kw != "axiom" && kw != "package" && cur == nil {
			return fmt.Errorf("%s:%d: clause %q outside a func", path, rc.line, kw)
		}
		switch kw {
		case "package":
			pkgPath = rest
			cur = nil
		case "func":
			name := strings.NewReplacer("(", "", ")", "", "*", "").Replace(rest)
			name = strings.TrimSpace(name)
			key := pkgPath + "." + name
			if _, dup := sp.Contracts[key]; dup {
				return fmt.Errorf("%s:%d: duplicate contract for %s", path, rc.line, key)
			}
			cur = &Contract{Key: key, PkgPath: pkgPath, Name: name, Loops: map[int]*LoopSpec{}, AllowPanic: map[string]string{}, File: path}
			sp.Contracts[key] = cur
		case "inst":
			// inst T=uint8|uint16 ; A=uint64   -> cartesian product
			axes := strings.Split(rest, ";")
			insts := []map[string]string{{}}
			for _, ax := range axes {
				kv := strings.SplitN(ax, "=", 2)
				if len(kv) != 2 {
					return fmt.Errorf("%s:%d: bad inst", path, rc.line)
				}
				tp := strings.TrimSpace(kv[0])
				var next []map[string]string
				for _, v := range strings.Split(kv[1], "|") {
					v = strings.TrimSpace(v)
					for _, m := range insts {
						nm := map[string]string{}
						for k, x := range m {
							nm[k] = x
						}
						nm[tp] = v
						next = append(next, nm)
					}
				}
				insts = next
			}
			cur.Insts = insts
		case "requires", "ensures":
			c, err := mkClause(rest, rc.line)
			if err != nil {
				return err
			}
			if c.Label == "" {
				if kw == "requires" {
					c.Label = fmt.Sprintf("pre%d", len(cur.Requires))
				} else {
					c.Label = fmt.Sprintf("post%d", len(cur.Ensures))
				}
			}
			if kw == "requires" {
				cur.Requires = append(cur.Requires, c)
			} else {
				cur.Ensures = append(cur.Ensures, c)
			}
		case "let":
			kv := strings.SplitN(rest, "=", 2)
			if len(kv) != 2 {
				return fmt.Errorf("%s:%d: bad let", path, rc.line)
			}
			e, err := parseSpecExpr(strings.TrimSpace(kv[1]))
			if err != nil {
				return fmt.Errorf("%s:%d: %v", path, rc.line, err)
			}
			cur.Lets = append(cur.Lets, SpecLet{strings.TrimSpace(kv[0]), e})
		case "loop":
			// loop <k> invariant [label] expr | loop <k> unroll <n>
			if len(fields) < 3 {
				return fmt.Errorf("%s:%d: bad loop clause", path, rc.line)
			}
			k, err := strconv.Atoi(strings.TrimSuffix(fields[1], ":"))
			if err != nil {
				return fmt.Errorf("%s:%d: bad loop ordinal", path, rc.line)
			}
			ls := cur.Loops[k]
			if ls == nil {
				ls = &LoopSpec{}
				cur.Loops[k] = ls
			}
			r2 := strings.TrimSpace(strings.TrimPrefix(strings.TrimSpace(strings.TrimPrefix(rest, fields[1])), fields[2]))
			switch fields[2] {
			case "invariant":
				c, err := mkClause(r2, rc.line)
				if err != nil {
					return err
				}
				if c.Label == "" {
					c.Label = fmt.Sprintf("inv%d", len(ls.Invariants))
				}
				ls.Invariants = append(ls.Invariants, c)
			case "each":
				// per-iteration postcondition: proved at the end of the body of an arbitrary iteration (also on
				// `continue` paths); before(e) is e at the start of that iteration
				c, err := mkClause(r2, rc.line)
				if err != nil {
					return err
				}
				if c.Label == "" {
					c.Label = fmt.Sprintf("each%d", len(ls.Each))
				}
				ls.Each = append(ls.Each, c)
			case "eachpost":
				c, err := mkClause(r2, rc.line)
				if err != nil {
					return err
				}
				if c.Label == "" {
					c.Label = fmt.Sprintf("eachpost%d", len(ls.EachPost))
				}
				ls.EachPost = append(ls.EachPost, c)
			case "unroll":
				n, err := strconv.Atoi(r2)
				if err != nil {
					return fmt.Errorf("%s:%d: bad unroll", path, rc.line)
				}
				ls.Unroll = n
			case "decreases":
				c, err := mkClause(r2, rc.line)
				if err != nil {
					return err
				}
				ls.Decreases = &c
			default:
				return fmt.Errorf("%s:%d: unknown loop clause %q", path, rc.line, fields[2])
			}
		case "allow_panic":
			// allow_panic <anchor> "reason"
			if len(fields) < 2 {
				return fmt.Errorf("%s:%d: bad allow_panic", path, rc.line)
			}
			cur.AllowPanic[fields[1]] = strings.Trim(strings.TrimSpace(strings.TrimPrefix(rest, fields[1])), "\"")
		case "trusted":
			cur.Trusted = strings.Trim(rest, "\"")
			if cur.Trusted == "" {
				cur.Trusted = "trusted"
			}
		case "pure":
			cur.Pure = true
		case "noinline":
			cur.NoInline = true
		case "fieldwise":
			// engine option for long functions: joins of struct values are built field by field and accessors
			// of constructor terms are folded (simp.go); meaning-preserving, changes only term shapes
			cur.Fieldwise = true
		case "glue":
			cur.Glue = true
		case "nilable":
			// nilable p, q: these pointer parameters may be nil (the default assumption is non-nil)
			for _, n := range strings.Split(rest, ",") {
				cur.Nilable = append(cur.Nilable, strings.TrimSpace(n))
			}
		case "ghost":
			cur.Ghost = append(cur.Ghost, rest)
		case "reveal":
			for _, n := range strings.Split(rest, ",") {
				cur.Reveal = append(cur.Reveal, strings.TrimSpace(n))
			}
		case "inline":
			// inline f, g: calls to these (small, loop-free) callees are executed transparently in
			// this function's proof instead of through their contracts
			for _, n := range strings.Split(rest, ",") {
				cur.Inline = append(cur.Inline, strings.TrimSpace(n))
			}
		case "modifies":
			if rest == "*" {
				cur.ModifiesAll = true
				break
			}
			for _, part := range splitTop(rest) {
				e, err := parseSpecExpr(part)
				if err != nil {
					return fmt.Errorf("%s:%d: %v", path, rc.line, err)
				}
				cur.Modifies = append(cur.Modifies, e)
			}
		case "assert":
			// assert at <anchor> [label] expr
			if len(fields) < 4 || fields[1] != "at" {
				return fmt.Errorf("%s:%d: bad assert", path, rc.line)
			}
			anchor := fields[2]
			r2 := strings.TrimSpace(rest[strings.Index(rest, anchor)+len(anchor):])
			c, err := mkClause(r2, rc.line)
			if err != nil {
				return err
			}
			if c.Label == "" {
				c.Label = fmt.Sprintf("assert%d", len(cur.Asserts))
			}
			cur.Asserts = append(cur.Asserts, AssertAt{anchor, c})
		case "spec":
			// spec func name(a T, b U) R = expr     (or without "= expr": uninterpreted)
			cur = nil
			isOpaque := false
			if strings.HasPrefix(rest, "opaque") {
				isOpaque = true
				rest = strings.TrimSpace(strings.TrimPrefix(rest, "opaque"))
			}
			r := strings.TrimSpace(strings.TrimPrefix(rest, "func"))
			op := strings.Index(r, "(")
			cp := matchParen(r, op)
			if op < 0 || cp < 0 {
				return fmt.Errorf("%s:%d: bad spec func", path, rc.line)
			}
			sf := &SpecFunc{Name: strings.TrimSpace(r[:op]), PkgPath: pkgPath, Opaque: isOpaque}
			for _, pr := range splitTop(r[op+1 : cp]) {
				pr = strings.TrimSpace(pr)
				if pr == "" {
					continue
				}
				k := strings.IndexAny(pr, " \t")
				if k < 0 {
					return fmt.Errorf("%s:%d: bad spec func param %q", path, rc.line, pr)
				}
				sf.Params = append(sf.Params, SVar{pr[:k], strings.TrimSpace(pr[k:])})
			}
			after := strings.TrimSpace(r[cp+1:])
			if eq := strings.Index(after, "="); eq >= 0 && !strings.HasPrefix(after[eq:], "==") {
				sf.Ret = strings.TrimSpace(after[:eq])
				e, err := parseSpecExpr(strings.TrimSpace(after[eq+1:]))
				if err != nil {
					return fmt.Errorf("%s:%d: %v", path, rc.line, err)
				}
				sf.Body = e
			} else {
				sf.Ret = after
			}
			sp.SpecFuncs[pkgPath+"."+sf.Name] = sf
		case "owns":
			cur = nil
			k := strings.Index(rest, ":")
			tf := strings.Split(strings.TrimSpace(rest[:max(k, 0)]), ".")
			if k < 0 || len(tf) != 2 {
				return fmt.Errorf("%s:%d: bad owns clause (owns Type.field: f, g)", path, rc.line)
			}
			ow := &Owns{PkgPath: pkgPath, Type: tf[0], Field: tf[1], Src: rest}
			for _, a := range strings.Split(rest[k+1:], ",") {
				if a = strings.TrimSpace(a); a != "" {
					ow.Allowed = append(ow.Allowed, a)
				}
			}
			sp.Owns[pkgPath+"."+tf[0]+"."+tf[1]] = ow
		case "lemma", "axiom":
			cur = nil
			k := strings.Index(rest, ":")
			if k < 0 {
				return fmt.Errorf("%s:%d: bad lemma", path, rc.line)
			}
			name := strings.TrimSpace(rest[:k])
			body := strings.TrimSpace(rest[k+1:])
			var insts []string
			if bi := strings.Index(body, " by inst "); bi >= 0 {
				for _, h := range strings.Split(body[bi+len(" by inst "):], ";") {
					if strings.TrimSpace(h) != "" {
						insts = append(insts, strings.TrimSpace(h))
					}
				}
				body = strings.TrimSpace(body[:bi])
			}
			e, err := parseSpecExpr(body)
			if err != nil {
				return fmt.Errorf("%s:%d: %v", path, rc.line, err)
			}
			sp.Lemmas[pkgPath+"."+name] = &Lemma{Name: name, PkgPath: pkgPath, Expr: e, Src: body, Axiom: kw == "axiom", Insts: insts}
		}
	}
	return nil
}

func matchParen(s string, open int) int {
	if open < 0 {
		return -1
	}
	d := 0
	for i := open; i < len(s); i++ {
		switch s[i] {
		case '(':
			d++
		case ')':
			d--
			if d == 0 {
				return i
			}
		}
	}
	return -1
}

func splitTop(s string) []string {
	var out []string
	d := 0
	last := 0
	for i := 0; i < len(s); i++ {
		switch s[i] {
		case '(', '[':
			d++
		case ')', ']':
			d--
		case ',':
			if d == 0 {
				out = append(out, strings.TrimSpace(s[last:i]))
				last = i + 1
			}
		}
	}
	if strings.TrimSpace(s[last:]) != "" {
		out = append(out, strings.TrimSpace(s[last:]))
	}
	return out
}

// text returns the concatenated source of all clauses (used for relevance filtering of axioms).
func (ct *Contract) text() string {
	var b strings.Builder
	for _, c := range ct.Requires {
		b.WriteString(c.Src + "\n")
	}
	for _, c := range ct.Ensures {
		b.WriteString(c.Src + "\n")
	}
	for _, l := range ct.Lets {
		b.WriteString(l.Expr.String() + "\n")
	}
	for _, ls := range ct.Loops {
		for _, c := range ls.Invariants {
			b.WriteString(c.Src + "\n")
		}
		for _, c := range ls.Each {
			b.WriteString(c.Src + "\n")
		}
		for _, c := range ls.EachPost {
			b.WriteString(c.Src + "\n")
		}
	}
	for _, a := range ct.Asserts {
		b.WriteString(a.Clause.Src + "\n")
	}
	return b.String()
}

func (ct *Contract) macros() map[string]SExpr {
	if len(ct.Lets) == 0 {
		return nil
	}
	m := map[string]SExpr{}
	for _, l := range ct.Lets {
		m[l.Name] = l.Expr
	}
	return m
}
