package main

import (
	"fmt"
	"go/token"
	"go/types"
	"math/big"
	"strings"
)

// Sorts maps Go types to SMT sorts and records the declarations needed, in dependency order.
type Sorts struct {
	decls    []string          // SMT declarations in order
	byType   map[string]string // types.TypeString(qualified) -> sort
	inProg   map[string]bool
	declared map[string]bool
	structs  map[string]*StructSort
	zeroDecl map[string]bool
	anon     int
	tsubst   func(types.Type) types.Type
	cuts     int // number of recursion cuts so far (results computed across a cut are not cached)
	keep     map[string]map[string]bool // struct sort -> fields to materialise (nil: all)
	used     map[string]map[string]bool // struct sort -> fields accessed in this run
	structOwner map[*types.Struct]string // shared underlying struct -> the sort name chosen for it
}

type StructSort struct {
	Sort   string
	Ctor   string
	Fields []StructField
	Pruned bool // some Go fields are folded into the opaque "#rest" component
}

// needField is raised when a pruned struct field turns out to be needed: generation is restarted
// with the field kept.
type needField struct{ sort, field string }

func (s *Sorts) markUsed(sort, field string) {
	m := s.used[sort]
	if m == nil {
		m = map[string]bool{}
		s.used[sort] = m
	}
	m[field] = true
}
type StructField struct {
	Name string
	Sel  string
	Type types.Type
	Sort string
}

func newSorts() *Sorts {
	return &Sorts{byType: map[string]string{}, inProg: map[string]bool{}, declared: map[string]bool{}, structs: map[string]*StructSort{}, zeroDecl: map[string]bool{}, used: map[string]map[string]bool{}}
}

func sanitize(s string) string {
	var b strings.Builder
	for _, r := range s {
		switch {
		case r >= 'a' && r <= 'z', r >= 'A' && r <= 'Z', r >= '0' && r <= '9', r == '_':
			b.WriteRune(r)
		case r == '.' || r == '/':
			b.WriteByte('_')
		case r == '*':
			b.WriteString("P")
		case r == '[' || r == ']':
			b.WriteString("B")
		default:
			b.WriteByte('_')
		}
	}
	return b.String()
}

func shortPkg(p *types.Package) string {
	if p == nil {
		return ""
	}
	path := p.Path()
	path = strings.TrimPrefix(path, modPath+"/")
	return path
}

func typeKey(t types.Type) string {
	return types.TypeString(t, func(p *types.Package) string { return p.Path() })
}

func (s *Sorts) declare(name, decl string) {
	if s.declared[name] {
		return
	}
	s.declared[name] = true
	s.decls = append(s.decls, decl)
}

func isBigInt(t types.Type) bool {
	if p, ok := t.(*types.Pointer); ok {
		t = p.Elem()
	}
	n, ok := t.(*types.Named)
	return ok && n.Obj().Pkg() != nil && n.Obj().Pkg().Path() == "math/big" && n.Obj().Name() == "Int"
}

// SortOf returns the SMT sort for a Go type, declaring what is needed.
func (s *Sorts) SortOf(t types.Type) string {
	if s.tsubst != nil {
		t = s.tsubst(t)
	}
	t = types.Unalias(t)
	key := typeKey(t)
	if v, ok := s.byType[key]; ok {
		return v
	}
	if s.inProg[key] {
		// recursive type: opaque at this occurrence
		name := "Opq_" + sanitize(key)
		s.declare(name, fmt.Sprintf("(declare-sort %s 0)", name))
		s.cuts++
		return name
	}
	s.inProg[key] = true
	defer delete(s.inProg, key)
	res := s.sortOf1(t, key)
	if !strings.Contains(res, "Opq_") {
		s.byType[key] = res // sorts embedding a recursion cut are not canonical for their type: not cached
	}
	return res
}

// cutType is the placeholder Go type given to a struct field whose sort was computed across a
// recursion cut (e.g. roundCowState.commitParent): values read from it are opaque.
func (s *Sorts) cutType(sort string) types.Type {
	name := "Cut_" + sanitize(sort)
	t := types.NewNamed(types.NewTypeName(token.NoPos, nil, name, nil), types.NewInterfaceType(nil, nil), nil)
	s.byType[typeKey(t)] = sort
	return t
}

func isCutType(t types.Type) bool {
	n, ok := t.(*types.Named)
	return ok && n.Obj().Pkg() == nil && strings.HasPrefix(n.Obj().Name(), "Cut_")
}

func (s *Sorts) sortOf1(t types.Type, key string) string {
	if isBigInt(t) {
		// *big.Int and big.Int: reference into the ghost big-int heap
		return "Int"
	}
	switch u := t.(type) {
	case *types.Named:
		und := u.Underlying()
		if st, ok := und.(*types.Struct); ok {
			name := "S_" + sanitize(shortPkg(u.Obj().Pkg())+"."+u.Obj().Name())
			if u.TypeArgs() != nil && u.TypeArgs().Len() > 0 {
				name = "S_" + sanitize(key)
			} else {
				// `type Certificate unauthenticatedBundle`: both names denote the same struct (go/types
				// shares the *types.Struct), so they share one SMT sort and conversions are the identity.
				// The sort is named after the first of them that is encountered (the traversal order is fixed).
				if s.structOwner == nil {
					s.structOwner = map[*types.Struct]string{}
				}
				if owner, ok := s.structOwner[st]; ok {
					name = owner
				} else {
					s.structOwner[st] = name
				}
			}
			return s.declStruct(name, st)
		}
		if _, ok := und.(*types.Interface); ok {
			if u.Obj().Pkg() == nil && u.Obj().Name() == "error" {
				return "Err"
			}
			return "Ifc"
		}
		return s.SortOf(und)
	case *types.Basic:
		switch {
		case u.Info()&types.IsBoolean != 0:
			return "Bool"
		case u.Info()&types.IsInteger != 0:
			return "Int"
		case u.Info()&types.IsString != 0:
			return "Str"
		case u.Info()&types.IsFloat != 0:
			s.declare("Flt", "(declare-sort Flt 0)")
			return "Flt"
		case u.Kind() == types.UnsafePointer:
			s.declare("UPtr", "(declare-sort UPtr 0)")
			return "UPtr"
		case u.Kind() == types.UntypedNil:
			return "Ifc"
		}
		s.declare("Opq_basic", "(declare-sort Opq_basic 0)")
		return "Opq_basic"
	case *types.Struct:
		s.anon++
		return s.declStruct(fmt.Sprintf("S_anon%d_%s", s.anon, sanitize(key))[:min(60, len(fmt.Sprintf("S_anon%d_%s", s.anon, sanitize(key))))], u)
	case *types.Pointer:
		es := s.SortOf(u.Elem())
		name := "Ptr_" + sanitize(es)
		s.declare(name, fmt.Sprintf("(declare-datatypes ((%s 0)) (((mk_%s (%s.nil Bool) (%s.val %s)))))", name, name, name, name, es))
		return name
	case *types.Slice:
		es := s.SortOf(u.Elem())
		name := "Sl_" + sanitize(es)
		s.declare(name, fmt.Sprintf("(declare-datatypes ((%s 0)) (((mk_%s (%s.arr (Array Int %s)) (%s.off Int) (%s.len Int) (%s.cap Int)))))", name, name, name, es, name, name, name))
		return name
	case *types.Array:
		if n, ok := baLen(u); ok {
			// fixed byte arrays (addresses, digests, keys): one uninterpreted sort per length with a
			// bytes observer; Go equality is sort equality
			name := fmt.Sprintf("BA%d", n)
			s.declare(name, fmt.Sprintf("(declare-sort %s 0)\n(declare-fun %s.bytes (%s) (Array Int Int))\n(declare-const %s.zero %s)\n(assert (= (%s.bytes %s.zero) ((as const (Array Int Int)) 0)))", name, name, name, name, name, name, name))
			return name
		}
		es := s.SortOf(u.Elem())
		return fmt.Sprintf("(Array Int %s)", es)
	case *types.Map:
		ks := s.SortOf(u.Key())
		vs := s.SortOf(u.Elem())
		name := "Map_" + sanitize(ks) + "_" + sanitize(vs)
		s.declare(name, fmt.Sprintf("(declare-datatypes ((%s 0)) (((mk_%s (%s.dom (Array %s Bool)) (%s.val (Array %s %s)) (%s.card Int)))))", name, name, name, ks, name, ks, vs, name))
		return name
	case *types.Interface:
		return "Ifc"
	case *types.Signature:
		s.declare("Fn", "(declare-sort Fn 0)")
		return "Fn"
	case *types.Chan:
		s.declare("Chan", "(declare-sort Chan 0)")
		return "Chan"
	case *types.TypeParam:
		name := "TP_" + sanitize(u.Obj().Name())
		s.declare(name, fmt.Sprintf("(declare-sort %s 0)", name))
		return name
	case *types.Tuple:
		return "Tuple"
	}
	name := "Opq_" + sanitize(key)
	s.declare(name, fmt.Sprintf("(declare-sort %s 0)", name))
	return name
}

func (s *Sorts) declStruct(name string, st *types.Struct) string {
	if _, ok := s.structs[name]; ok {
		return name
	}
	ss := &StructSort{Sort: name, Ctor: "mk_" + name}
	s.structs[name] = ss // pre-register (recursion is cut by inProg)
	var fs []string
	pruned := false
	for i := 0; i < st.NumFields(); i++ {
		f := st.Field(i)
		if s.keep != nil && !s.keep[name][f.Name()] {
			// field never read or written by this verification: folded into the opaque `rest`
			pruned = true
			continue
		}
		fsort := s.SortOf(f.Type())
		ftype := f.Type()
		if strings.Contains(fsort, "Opq_") {
			ftype = s.cutType(fsort)
		}
		fname := f.Name()
		if fname == "_" {
			fname = fmt.Sprintf("blank%d", i)
		}
		sel := name + "." + fname
		ss.Fields = append(ss.Fields, StructField{Name: f.Name(), Sel: sel, Type: ftype, Sort: fsort})
		fs = append(fs, fmt.Sprintf("(%s %s)", sel, fsort))
	}
	if pruned {
		rs := "Rest_" + name
		s.declare(rs, fmt.Sprintf("(declare-sort %s 0)", rs))
		ss.Fields = append(ss.Fields, StructField{Name: "#rest", Sel: name + ".rest!", Type: s.cutType(rs), Sort: rs})
		fs = append(fs, fmt.Sprintf("(%s.rest! %s)", name, rs))
		ss.Pruned = true
	}
	if len(fs) == 0 {
		s.declare(name, fmt.Sprintf("(declare-datatypes ((%s 0)) (((mk_%s))))", name, name))
	} else {
		s.declare(name, fmt.Sprintf("(declare-datatypes ((%s 0)) (((mk_%s %s))))", name, name, strings.Join(fs, " ")))
	}
	return name
}

// baLen reports whether t is a fixed array of bytes ([N]byte / [N]uint8) and returns N.
func baLen(t types.Type) (int64, bool) {
	a, ok := t.Underlying().(*types.Array)
	if !ok {
		return 0, false
	}
	b, ok := a.Elem().Underlying().(*types.Basic)
	if !ok || b.Kind() != types.Uint8 {
		return 0, false
	}
	return a.Len(), true
}

// StructOf returns the struct sort info for a Go type whose underlying type is a struct.
func (s *Sorts) StructOf(t types.Type) *StructSort {
	name := s.SortOf(t)
	return s.structs[name]
}

// intRange returns (lo, hi, ok) for integer types (inclusive bounds).
func intRange(t types.Type) (lo, hi *big.Int, ok bool) {
	b, isb := t.Underlying().(*types.Basic)
	if !isb || b.Info()&types.IsInteger == 0 {
		return nil, nil, false
	}
	bits, signed := intBits(b)
	one := big.NewInt(1)
	if signed {
		hi = new(big.Int).Sub(new(big.Int).Lsh(one, uint(bits-1)), one)
		lo = new(big.Int).Neg(new(big.Int).Lsh(one, uint(bits-1)))
	} else {
		lo = big.NewInt(0)
		hi = new(big.Int).Sub(new(big.Int).Lsh(one, uint(bits)), one)
	}
	return lo, hi, true
}

func intBits(b *types.Basic) (bits int, signed bool) {
	switch b.Kind() {
	case types.Int8:
		return 8, true
	case types.Int16:
		return 16, true
	case types.Int32, types.UntypedRune:
		return 32, true
	case types.Int64, types.Int, types.UntypedInt:
		return 64, true
	case types.Uint8:
		return 8, false
	case types.Uint16:
		return 16, false
	case types.Uint32:
		return 32, false
	case types.Uint64, types.Uint, types.Uintptr:
		return 64, false
	}
	return 64, true
}

func smtInt(v *big.Int) string {
	if v.Sign() < 0 {
		return "(- " + new(big.Int).Neg(v).String() + ")"
	}
	return v.String()
}

// Zero returns the SMT term of the Go zero value of t.
func (s *Sorts) Zero(t types.Type) string {
	if s.tsubst != nil {
		t = s.tsubst(t)
	}
	t = types.Unalias(t)
	if isBigInt(t) {
		return "0"
	}
	sort := s.SortOf(t)
	if isCutType(t) {
		z := "zero_" + sanitize(sort)
		if !s.zeroDecl[z] {
			s.zeroDecl[z] = true
			s.decls = append(s.decls, fmt.Sprintf("(declare-const %s %s)", z, sort))
		}
		return z
	}
	switch u := t.Underlying().(type) {
	case *types.Basic:
		switch {
		case u.Info()&types.IsBoolean != 0:
			return "false"
		case u.Info()&types.IsInteger != 0:
			return "0"
		case u.Info()&types.IsString != 0:
			return "str_empty"
		}
	case *types.Struct:
		ss := s.structs[sort]
		if ss != nil {
			if len(ss.Fields) == 0 {
				return ss.Ctor
			}
			var parts []string
			for _, f := range ss.Fields {
				parts = append(parts, s.Zero(f.Type))
			}
			return "(" + ss.Ctor + " " + strings.Join(parts, " ") + ")"
		}
	case *types.Pointer:
		return fmt.Sprintf("(mk_%s true %s)", sort, s.Zero(u.Elem()))
	case *types.Slice:
		return fmt.Sprintf("(mk_%s ((as const (Array Int %s)) %s) (- 1) 0 0)", sort, s.SortOf(u.Elem()), s.Zero(u.Elem())) // offset -1 marks the nil slice
	case *types.Array:
		if _, ok := baLen(u); ok {
			return sort + ".zero"
		}
		return fmt.Sprintf("((as const %s) %s)", sort, s.Zero(u.Elem()))
	case *types.Map:
		ks := s.SortOf(u.Key())
		return fmt.Sprintf("(mk_%s ((as const (Array %s Bool)) false) ((as const (Array %s %s)) %s) 0)", sort, ks, ks, s.SortOf(u.Elem()), s.Zero(u.Elem()))
	case *types.Interface:
		if sort == "Err" {
			return "err_nil"
		}
		return "ifc_nil"
	}
	z := "zero_" + sanitize(sort)
	if !s.zeroDecl[z] {
		s.zeroDecl[z] = true
		s.decls = append(s.decls, fmt.Sprintf("(declare-const %s %s)", z, sort))
	}
	return z
}

// TypeInv returns the conjuncts stating that term is a well-typed value of t (integer ranges,
// non-negative lengths), descending into struct fields but not into array/map contents.
func (s *Sorts) TypeInv(term string, t types.Type, depth int) []string {
	if s.tsubst != nil {
		t = s.tsubst(t)
	}
	t = types.Unalias(t)
	if isBigInt(t) {
		return nil
	}
	var out []string
	switch u := t.Underlying().(type) {
	case *types.Basic:
		if lo, hi, ok := intRange(t); ok {
			out = append(out, fmt.Sprintf("(<= %s %s)", smtInt(lo), term), fmt.Sprintf("(<= %s %s)", term, smtInt(hi)))
		}
		if u.Info()&types.IsString != 0 {
			out = append(out, fmt.Sprintf("(>= (gstr_len %s) 0)", term), fmt.Sprintf("(< (gstr_len %s) 4611686018427387904)", term))
		}
	case *types.Struct:
		if depth > 6 {
			return nil
		}
		ss := s.StructOf(t)
		if ss == nil {
			return nil
		}
		for _, f := range ss.Fields {
			out = append(out, s.TypeInv(fmt.Sprintf("(%s %s)", f.Sel, term), f.Type, depth+1)...)
		}
	case *types.Slice:
		so := s.SortOf(t)
		out = append(out, fmt.Sprintf("(>= (%s.off %s) (- 1))", so, term), fmt.Sprintf("(=> (< (%s.off %s) 0) (= (%s.cap %s) 0))", so, term, so, term), fmt.Sprintf("(>= (%s.len %s) 0)", so, term), fmt.Sprintf("(>= (%s.cap %s) (%s.len %s))", so, term, so, term),
			fmt.Sprintf("(< (+ (%s.off %s) (%s.cap %s)) 4611686018427387904)", so, term, so, term))
	case *types.Map:
		so := s.SortOf(t)
		out = append(out, fmt.Sprintf("(>= (%s.card %s) 0)", so, term))
	case *types.Pointer:
		if depth > 6 {
			return nil
		}
		so := s.SortOf(t)
		out = append(out, s.TypeInv(fmt.Sprintf("(%s.val %s)", so, term), u.Elem(), depth+1)...)
	}
	return out
}
