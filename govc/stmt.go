package main

import (
	"fmt"
	"go/ast"
	"go/token"
	"go/types"
	"sort"

	"golang.org/x/tools/go/types/typeutil"
)

// execBlock executes statements; returns the normal-completion state (nil if unreachable).
func (f *Frame) execBlock(st *State, stmts []ast.Stmt) *State {
	for _, s := range stmts {
		if st == nil {
			return nil
		}
		st = f.execStmt(st, s)
	}
	return st
}

func (f *Frame) execStmt(st *State, s ast.Stmt) *State {
	switch x := s.(type) {
	case *ast.EmptyStmt:
		return st
	case *ast.BlockStmt:
		return f.execBlock(st, x.List)
	case *ast.ExprStmt:
		if call, ok := ast.Unparen(x.X).(*ast.CallExpr); ok {
			if f.isPanicCall(call) {
				f.doPanic(st, call)
				return nil
			}
			f.evalCall(st, call)
			if f.callNeverReturns(call) {
				return nil
			}
			return st
		}
		f.eval(st, x.X)
		return st
	case *ast.AssignStmt:
		f.execAssign(st, x)
		// `assert at assign:<lhs> [label] e`: proved right after every assignment whose (single) left-hand side
		// is written exactly <lhs> (e.g. assign:e.lastRnd) -- the anchor names the state being updated, not a line
		if f.top && f.contract != nil && len(x.Lhs) == 1 && len(f.contract.Asserts) > 0 {
			lhs := types.ExprString(x.Lhs[0])
			for _, a := range f.contract.Asserts {
				if a.Anchor == "assign:"+lhs {
					k := f.c.counters["assert:"+a.Clause.Label]
					f.c.counters["assert:"+a.Clause.Label] = k + 1
					func() {
						defer f.specGuard(x, "assert at "+a.Anchor)
						t := f.specBool(st, a.Clause.Expr, f.loopSpecEnv(st))
						f.oblige(st, "assert", fmt.Sprintf("%s@%s#%d", a.Clause.Label, lhs, k), t, x.Pos(), a.Clause.Src)
						st.assume(t)
					}()
				}
			}
		}
		return st
	case *ast.IncDecStmt:
		op := token.ADD
		if x.Tok == token.DEC {
			op = token.SUB
		}
		// `assert at incr:<var> [label] e`: proved where the named counter is stepped (before the step)
		if id, ok := ast.Unparen(x.X).(*ast.Ident); ok && f.top && f.contract != nil {
			for _, a := range f.contract.Asserts {
				if a.Anchor == "incr:"+id.Name {
					k := f.c.counters["assert:"+a.Clause.Label]
					f.c.counters["assert:"+a.Clause.Label] = k + 1
					func() {
						defer f.specGuard(x, "assert at "+a.Anchor)
						t := f.specBool(st, a.Clause.Expr, f.loopSpecEnv(st))
						f.oblige(st, "assert", fmt.Sprintf("%s@%s#%d", a.Clause.Label, id.Name, k), t, x.Pos(), a.Clause.Src)
						st.assume(t)
					}()
				}
			}
		}
		cur := f.eval(st, x.X)
		t := f.typeOf(x.X)
		nv := f.arith(st, op, cur, Val{T: "1", Ty: t}, t, x.Pos())
		f.assign(st, x.X, nv)
		return st
	case *ast.DeclStmt:
		gd, ok := x.Decl.(*ast.GenDecl)
		if !ok {
			f.unsupported(s, "declaration statement")
		}
		if gd.Tok != token.VAR {
			return st // const / type declarations
		}
		for _, sp := range gd.Specs {
			vs := sp.(*ast.ValueSpec)
			if len(vs.Values) == 0 {
				for _, n := range vs.Names {
					obj := f.info.Defs[n]
					if obj == nil {
						continue
					}
					st.env[obj] = f.zero(obj.Type())
				}
				continue
			}
			if len(vs.Values) == 1 && len(vs.Names) > 1 {
				rs := f.evalMulti(st, vs.Values[0])
				for i, n := range vs.Names {
					if obj := f.info.Defs[n]; obj != nil {
						st.env[obj] = f.convertForAssign(st, rs[i], obj.Type())
					}
				}
				continue
			}
			for i, n := range vs.Names {
				v := f.eval(st, vs.Values[i])
				if obj := f.info.Defs[n]; obj != nil {
					st.env[obj] = f.name(n.Name, f.convertForAssign(st, v, obj.Type()))
				}
			}
		}
		return st
	case *ast.ReturnStmt:
		f.execReturn(st, x)
		return nil
	case *ast.IfStmt:
		return f.execIf(st, x)
	case *ast.SwitchStmt:
		return f.execSwitch(st, x, "")
	case *ast.TypeSwitchStmt:
		return f.execTypeSwitch(st, x, "")
	case *ast.ForStmt:
		return f.execFor(st, x, "")
	case *ast.RangeStmt:
		return f.execRange(st, x, "")
	case *ast.LabeledStmt:
		switch inner := x.Stmt.(type) {
		case *ast.ForStmt:
			return f.execFor(st, inner, x.Label.Name)
		case *ast.RangeStmt:
			return f.execRange(st, inner, x.Label.Name)
		case *ast.SwitchStmt:
			return f.execSwitch(st, inner, x.Label.Name)
		case *ast.TypeSwitchStmt:
			return f.execTypeSwitch(st, inner, x.Label.Name)
		case *ast.SelectStmt:
			return f.execSelect(st, inner, x.Label.Name)
		}
		return f.execStmt(st, x.Stmt)
	case *ast.BranchStmt:
		return f.execBranch(st, x)
	case *ast.DeferStmt:
		if f.isIgnorableDefer(x) {
			return st
		}
		if f.top && f.c.contract != nil && f.c.contract.Glue {
			// glue contract: deferred closures (panic recovery, tracer hooks, pool recycling) are not
			// modelled; the facts proved hold for executions that do not panic
			f.c.note("glue contract " + f.c.fnName + ": deferred calls (" + exprString(x.Call.Fun) + ") are not modelled; claims hold for executions without panics")
			return st
		}
		f.defers = append(f.defers, x)
		f.unsupported(s, "defer of %s", exprString(x.Call.Fun))
	case *ast.GoStmt:
		if f.top && f.c.contract != nil && f.c.contract.Glue {
			// glue contract: the goroutine's body is not modelled; its arguments are evaluated here (as Go does)
			f.c.note("glue contract " + f.c.fnName + ": `go " + exprString(x.Call.Fun) + "(...)` starts a goroutine that is not modelled (arguments are evaluated at the go statement)")
			for _, a := range x.Call.Args {
				f.eval(st, a)
			}
			return st
		}
		f.unsupported(s, "go statement")
	case *ast.SendStmt:
		f.c.note("channel send dropped")
		return st
	case *ast.SelectStmt:
		return f.execSelect(st, x, "")
	}
	f.unsupported(s, "statement %T", s)
	return nil
}

func exprString(e ast.Expr) string {
	switch x := e.(type) {
	case *ast.Ident:
		return x.Name
	case *ast.SelectorExpr:
		return exprString(x.X) + "." + x.Sel.Name
	case *ast.CallExpr:
		return exprString(x.Fun) + "()"
	case *ast.StarExpr:
		return "*" + exprString(x.X)
	case *ast.ParenExpr:
		return "(" + exprString(x.X) + ")"
	case *ast.IndexExpr:
		return exprString(x.X) + "[...]"
	case *ast.FuncLit:
		return "func(){...}"
	}
	return fmt.Sprintf("%T", e)
}

func (f *Frame) isIgnorableDefer(d *ast.DeferStmt) bool {
	if sel, ok := d.Call.Fun.(*ast.SelectorExpr); ok {
		switch sel.Sel.Name {
		case "Unlock", "RUnlock", "Done", "Close", "Stop":
			f.c.dropped["defer "+exprString(d.Call.Fun)] = true
			return true
		}
	}
	return false
}

func (f *Frame) execBranch(st *State, x *ast.BranchStmt) *State {
	label := ""
	if x.Label != nil {
		label = x.Label.Name
	}
	switch x.Tok {
	case token.BREAK:
		for i := len(f.brk) - 1; i >= 0; i-- {
			b := f.brk[i]
			if label == "" || b.label == label {
				b.breaks = append(b.breaks, st)
				return nil
			}
		}
	case token.CONTINUE:
		for i := len(f.brk) - 1; i >= 0; i-- {
			b := f.brk[i]
			if !b.isLoop {
				continue
			}
			if label == "" || b.label == label {
				b.continues = append(b.continues, st)
				return nil
			}
		}
	case token.FALLTHROUGH:
		f.unsupported(x, "fallthrough")
	case token.GOTO:
		f.unsupported(x, "goto")
	}
	f.unsupported(x, "branch target not found")
	return nil
}

func (f *Frame) execReturn(st *State, x *ast.ReturnStmt) {
	sig := f.fn.Obj.Type().(*types.Signature)
	nres := sig.Results().Len()
	var results []Val
	switch {
	case len(x.Results) == 0:
		for _, ro := range f.resultObjs {
			results = append(results, st.env[ro])
		}
	case len(x.Results) == 1 && nres > 1:
		rs := f.evalMulti(st, x.Results[0])
		for i, r := range rs {
			results = append(results, f.convertForAssign(st, r, sig.Results().At(i).Type()))
		}
	default:
		for i, r := range x.Results {
			v := f.eval(st, r)
			rv := f.name("ret", f.convertForAssign(st, v, sig.Results().At(i).Type()))
			rv.Refs = v.Refs
			results = append(results, rv)
		}
	}
	// named results get the returned values (visible to deferred code and to specs)
	for i, ro := range f.resultObjs {
		if i < len(results) && ro.Name() != "" && ro.Name() != "_" {
			st.env[ro] = results[i]
		}
	}
	f.exits = append(f.exits, &Exit{st: st, results: results, pos: x.Pos()})
}

func (f *Frame) execAssign(st *State, x *ast.AssignStmt) {
	if x.Tok != token.ASSIGN && x.Tok != token.DEFINE {
		// op=
		op := map[token.Token]token.Token{token.ADD_ASSIGN: token.ADD, token.SUB_ASSIGN: token.SUB, token.MUL_ASSIGN: token.MUL, token.QUO_ASSIGN: token.QUO, token.REM_ASSIGN: token.REM,
			token.AND_ASSIGN: token.AND, token.OR_ASSIGN: token.OR, token.XOR_ASSIGN: token.XOR, token.SHL_ASSIGN: token.SHL, token.SHR_ASSIGN: token.SHR, token.AND_NOT_ASSIGN: token.AND_NOT}[x.Tok]
		cur := f.eval(st, x.Lhs[0])
		rhs := f.eval(st, x.Rhs[0])
		t := f.typeOf(x.Lhs[0])
		if op != token.SHL && op != token.SHR {
			rhs = f.convertForAssign(st, rhs, t)
		}
		nv := f.arith(st, op, cur, rhs, t, x.Pos())
		f.assign(st, x.Lhs[0], nv)
		return
	}
	if len(x.Lhs) > 1 && len(x.Rhs) == 1 {
		rs := f.evalMulti(st, x.Rhs[0])
		if len(rs) != len(x.Lhs) {
			f.unsupported(x, "assignment count mismatch")
		}
		for i, l := range x.Lhs {
			f.assign(st, l, rs[i])
		}
		return
	}
	// parallel assignment: evaluate all right sides first
	var vals []Val
	for _, r := range x.Rhs {
		vals = append(vals, f.eval(st, r))
	}
	for i, l := range x.Lhs {
		f.assign(st, l, vals[i])
	}
}

// evalMulti evaluates an expression that may yield several values (call, map index, type assert, recv).
func (f *Frame) evalMulti(st *State, e ast.Expr) []Val {
	switch x := ast.Unparen(e).(type) {
	case *ast.CallExpr:
		return f.evalCall(st, x)
	case *ast.IndexExpr:
		base := f.eval(st, x.X)
		if m, ok := base.Ty.Underlying().(*types.Map); ok {
			k := f.convertForAssign(st, f.eval(st, x.Index), m.Key())
			v, present := f.mapLookup(st, base, k)
			return []Val{v, {T: present, Ty: types.Typ[types.Bool]}}
		}
	case *ast.TypeAssertExpr:
		f.c.note("type assertion abstracted to an arbitrary value of the asserted type")
		f.eval(st, x.X)
		tv := f.info.Types[e]
		if tup, ok := tv.Type.(*types.Tuple); ok {
			return []Val{f.havoc(st, "ta", tup.At(0).Type()), f.havoc(st, "ok", types.Typ[types.Bool])}
		}
		return []Val{f.havoc(st, "ta", f.typeOf(x)), f.havoc(st, "ok", types.Typ[types.Bool])}
	case *ast.UnaryExpr:
		if x.Op == token.ARROW {
			f.c.note("channel receive abstracted to an arbitrary value")
			tv := f.info.Types[e]
			if tup, ok := tv.Type.(*types.Tuple); ok {
				return []Val{f.havoc(st, "recv", tup.At(0).Type()), f.havoc(st, "ok", types.Typ[types.Bool])}
			}
		}
	}
	return []Val{f.eval(st, e)}
}

// assign stores v into the lvalue expression.
func (f *Frame) assign(st *State, lhs ast.Expr, v Val) {
	switch x := ast.Unparen(lhs).(type) {
	case *ast.Ident:
		if x.Name == "_" {
			return
		}
		obj := f.info.ObjectOf(x)
		if obj == nil {
			f.unsupported(lhs, "assignment to unresolved identifier")
		}
		if _, isVar := obj.(*types.Var); !isVar {
			f.unsupported(lhs, "assignment to non-variable")
		}
		refs := v.Refs
		v = f.convertForAssign(st, v, obj.Type())
		v.Refs = refs
		if _, known := st.env[obj]; !known {
			if f.info.Defs[x] == nil {
				// assignment to a package-level variable or captured variable
				if ov, ok := obj.(*types.Var); ok && ov.Pkg() != nil && ov.Pkg().Scope().Lookup(ov.Name()) == ov {
					f.unsupported(lhs, "write to package-level variable %s", x.Name)
				}
			}
		}
		st.env[obj] = f.name(x.Name, v)
	case *ast.SelectorExpr:
		sel := f.info.Selections[x]
		if sel == nil || sel.Kind() != types.FieldVal {
			f.unsupported(lhs, "assignment to non-field selector")
		}
		base := f.eval(st, x.X)
		v = f.convertForAssign(st, v, sel.Type())
		nb := f.updatePath(st, base, sel.Index(), v, x)
		nb.Refs = base.Refs
		f.assign(st, x.X, nb)
		if _, isPtr := base.Ty.Underlying().(*types.Pointer); isPtr && len(base.Refs) > 0 {
			// the pointer aliases other locations: apply the write there too
			f.propagateRefs(st, base.Refs, f.deref(st, nb, x))
		}
	case *ast.IndexExpr:
		base := f.eval(st, x.X)
		if m, ok := base.Ty.Underlying().(*types.Map); ok {
			k := f.convertForAssign(st, f.eval(st, x.Index), m.Key())
			v = f.convertForAssign(st, v, m.Elem())
			f.assign(st, x.X, f.mapStore(st, base, k, v))
			return
		}
		i := f.eval(st, x.Index)
		nb := f.storeIndex(st, base, i, v, x)
		f.assign(st, x.X, nb)
	case *ast.StarExpr:
		p := f.eval(st, x.X)
		pt := p.Ty.Underlying().(*types.Pointer)
		v = f.convertForAssign(st, v, pt.Elem())
		if isBigInt(p.Ty) {
			f.unsupported(lhs, "assignment through *big.Int")
		}
		so := f.c.sorts.SortOf(p.Ty)
		np := Val{T: fmt.Sprintf("(mk_%s (%s.nil %s) %s)", so, so, p.T, v.T), Ty: p.Ty, Refs: p.Refs}
		f.assign(st, x.X, np)
		if len(p.Refs) > 0 {
			f.propagateRefs(st, p.Refs, v)
		}
	case *ast.CallExpr, *ast.CompositeLit:
		// e.g. f().x = v : write to a temporary, no effect on tracked state
		f.c.note("write to a temporary value dropped")
	default:
		f.unsupported(lhs, "assignment target %T", lhs)
	}
}

// updatePath returns base with the field at the (embedded) index path replaced by v.
func (f *Frame) updatePath(st *State, base Val, idx []int, v Val, n ast.Node) Val {
	if pt, ok := base.Ty.Underlying().(*types.Pointer); ok {
		inner := f.deref(st, base, n)
		ni := f.updatePath(st, inner, idx, v, n)
		so := f.c.sorts.SortOf(base.Ty)
		_ = pt
		return Val{T: fmt.Sprintf("(mk_%s (%s.nil %s) %s)", so, so, base.T, ni.T), Ty: base.Ty}
	}
	stt, ok := base.Ty.Underlying().(*types.Struct)
	if !ok {
		f.unsupported(n, "field update through %v", base.Ty)
	}
	name := stt.Field(idx[0]).Name()
	if len(idx) == 1 {
		return f.withField(base, name, v, n)
	}
	inner := f.fieldOf(base, name, n)
	ni := f.updatePath(st, inner, idx[1:], v, n)
	return f.withField(base, name, ni, n)
}

func (f *Frame) storeIndex(st *State, base, i, v Val, n ast.Node) Val {
	if _, ok := base.Ty.Underlying().(*types.Pointer); ok {
		inner := f.deref(st, base, n)
		ni := f.storeIndex(st, inner, i, v, n)
		so := f.c.sorts.SortOf(base.Ty)
		return Val{T: fmt.Sprintf("(mk_%s (%s.nil %s) %s)", so, so, base.T, ni.T), Ty: base.Ty}
	}
	switch u := base.Ty.Underlying().(type) {
	case *types.Array:
		f.panicSite(st, "index", fmt.Sprintf("(and (<= 0 %s) (< %s %d))", i.T, i.T, u.Len()), n.Pos())
		v = f.convertForAssign(st, v, u.Elem())
		if _, ok := baLen(base.Ty); ok {
			return f.fromArr(st, fmt.Sprintf("(store %s %s %s)", f.arrTerm(base), i.T, v.T), base.Ty)
		}
		return f.name("arr", Val{T: fmt.Sprintf("(store %s %s %s)", base.T, i.T, v.T), Ty: base.Ty})
	case *types.Slice:
		so := f.c.sorts.SortOf(base.Ty)
		f.panicSite(st, "index", fmt.Sprintf("(and (<= 0 %s) (< %s (%s.len %s)))", i.T, i.T, so, base.T), n.Pos())
		v = f.convertForAssign(st, v, u.Elem())
		r := fmt.Sprintf("(mk_%s (store (%s.arr %s) (+ (%s.off %s) %s) %s) (%s.off %s) (%s.len %s) (%s.cap %s))", so, so, base.T, so, base.T, i.T, v.T, so, base.T, so, base.T, so, base.T)
		return f.name("sl", Val{T: r, Ty: base.Ty})
	}
	f.unsupported(n, "indexed store into %v", base.Ty)
	return Val{}
}

func (f *Frame) execIf(st *State, x *ast.IfStmt) *State {
	if x.Init != nil {
		st = f.execStmt(st, x.Init)
		if st == nil {
			return nil
		}
	}
	c := f.eval(st, x.Cond)
	if c.T != "true" && c.T != "false" {
		// every branch condition gets a name: case splits (splitDischarge) refer to it
		c.T = f.c.define("c", "Bool", c.T)
	}
	s1 := st.fork()
	s1.assume(c.T)
	n1 := f.execBlock(s1, x.Body.List)
	s2 := st.fork()
	s2.assume(not(c.T))
	var n2 *State = s2
	if x.Else != nil {
		n2 = f.execStmt(s2, x.Else)
	}
	return f.mergeStates([]*State{n1, n2})
}

func (f *Frame) execSwitch(st *State, x *ast.SwitchStmt, label string) *State {
	if x.Init != nil {
		st = f.execStmt(st, x.Init)
		if st == nil {
			return nil
		}
	}
	var tag *Val
	if x.Tag != nil {
		v := f.name("tag", f.eval(st, x.Tag))
		tag = &v
	}
	bc := &breakCtx{label: label}
	f.brk = append(f.brk, bc)
	var outs []*State
	rest := st
	var defaultClause *ast.CaseClause
	clauses := x.Body.List
	for ci, cs := range clauses {
		cc := cs.(*ast.CaseClause)
		if cc.List == nil {
			defaultClause = cc
			continue
		}
		if rest == nil {
			break
		}
		var conds []string
		for _, e := range cc.List {
			v := f.eval(rest, e)
			if tag != nil {
				conds = append(conds, f.equal(rest, *tag, f.convertForAssign(rest, v, tag.Ty), e))
			} else {
				conds = append(conds, v.T)
			}
		}
		c := f.name("case", Val{T: disj(conds), IsBool: true}).T
		s1 := rest.fork()
		s1.assume(c)
		body := cc.Body
		// fallthrough: append the next clause's body
		for k := ci; len(body) > 0; k++ {
			last, ok := body[len(body)-1].(*ast.BranchStmt)
			if !ok || last.Tok != token.FALLTHROUGH || k+1 >= len(clauses) {
				break
			}
			body = append(append([]ast.Stmt(nil), body[:len(body)-1]...), clauses[k+1].(*ast.CaseClause).Body...)
		}
		outs = append(outs, f.execBlock(s1, body))
		rest.assume(not(c))
	}
	if rest != nil {
		if defaultClause != nil {
			outs = append(outs, f.execBlock(rest, defaultClause.Body))
		} else {
			outs = append(outs, rest)
		}
	}
	f.brk = f.brk[:len(f.brk)-1]
	outs = append(outs, bc.breaks...)
	return f.mergeStates(outs)
}

// execSelect: which communication is ready is outside the (sequential) model, so every clause is
// explored from the same state as a nondeterministic choice; a received value is arbitrary, a send is
// dropped. Blocking is not modelled: the facts proved hold for the executions that get past the select.
func (f *Frame) execSelect(st *State, x *ast.SelectStmt, label string) *State {
	f.c.note("select: every clause explored as a nondeterministic choice (channel readiness, blocking and the values received are not modelled)")
	bc := &breakCtx{label: label}
	f.brk = append(f.brk, bc)
	var outs []*State
	for _, cs := range x.Body.List {
		cc := cs.(*ast.CommClause)
		s1 := st.fork()
		s1.assume(f.c.fresh("selcase", "Bool"))
		if cc.Comm != nil {
			switch c := cc.Comm.(type) {
			case *ast.SendStmt:
				f.eval(s1, c.Value)
			default:
				s1 = f.execStmt(s1, cc.Comm)
			}
		}
		if s1 != nil {
			outs = append(outs, f.execBlock(s1, cc.Body))
		}
	}
	f.brk = f.brk[:len(f.brk)-1]
	outs = append(outs, bc.breaks...)
	return f.mergeStates(outs)
}

func (f *Frame) execTypeSwitch(st *State, x *ast.TypeSwitchStmt, label string) *State {
	if x.Init != nil {
		st = f.execStmt(st, x.Init)
		if st == nil {
			return nil
		}
	}
	f.c.note("type switch: every case explored with the bound variable abstracted")
	// evaluate the subject for side effects
	switch a := x.Assign.(type) {
	case *ast.ExprStmt:
		f.eval(st, a.X.(*ast.TypeAssertExpr).X)
	case *ast.AssignStmt:
		f.eval(st, a.Rhs[0].(*ast.TypeAssertExpr).X)
	}
	bc := &breakCtx{label: label}
	f.brk = append(f.brk, bc)
	var outs []*State
	hasDefault := false
	for _, cs := range x.Body.List {
		cc := cs.(*ast.CaseClause)
		if cc.List == nil {
			hasDefault = true
		}
		s1 := st.fork()
		s1.assume(f.c.fresh("tscase", "Bool"))
		if obj := f.info.Implicits[cc]; obj != nil {
			s1.env[obj] = f.havoc(s1, obj.Name(), obj.Type())
		}
		outs = append(outs, f.execBlock(s1, cc.Body))
	}
	if !hasDefault {
		outs = append(outs, st)
	}
	f.brk = f.brk[:len(f.brk)-1]
	outs = append(outs, bc.breaks...)
	return f.mergeStates(outs)
}

// assignedIn collects the root variables that may be modified by executing the nodes.
func (f *Frame) assignedIn(nodes ...ast.Node) []types.Object {
	set := map[types.Object]bool{}
	var root func(e ast.Expr) types.Object
	root = func(e ast.Expr) types.Object {
		switch x := ast.Unparen(e).(type) {
		case *ast.Ident:
			return f.info.ObjectOf(x)
		case *ast.SelectorExpr:
			if sel := f.info.Selections[x]; sel != nil {
				return root(x.X)
			}
		case *ast.IndexExpr:
			return root(x.X)
		case *ast.StarExpr:
			return root(x.X)
		case *ast.SliceExpr:
			return root(x.X)
		case *ast.UnaryExpr:
			if x.Op == token.AND {
				return root(x.X)
			}
		}
		return nil
	}
	add := func(e ast.Expr) {
		if o := root(e); o != nil {
			if _, ok := o.(*types.Var); ok {
				set[o] = true
			}
		}
	}
	for _, n := range nodes {
		if n == nil {
			continue
		}
		ast.Inspect(n, func(n ast.Node) bool {
			switch x := n.(type) {
			case *ast.AssignStmt:
				for _, l := range x.Lhs {
					add(l)
				}
			case *ast.IncDecStmt:
				add(x.X)
			case *ast.RangeStmt:
				if x.Key != nil {
					add(x.Key)
				}
				if x.Value != nil {
					add(x.Value)
				}
			case *ast.CallExpr:
				// receivers and pointer/slice/map arguments may be mutated by the callee: consult its
				// contract (modifies / pure) or scan its body; unknown callees mutate everything
				if tv, ok := f.info.Types[x.Fun]; ok && tv.IsType() {
					return true
				}
				if id, ok := ast.Unparen(x.Fun).(*ast.Ident); ok {
					if b, ok := f.info.ObjectOf(id).(*types.Builtin); ok {
						switch b.Name() {
						case "copy", "delete", "clear":
							add(x.Args[0])
						}
						return true
					}
				}
				mi := mutInfo{all: true}
				if callee, _ := typeutil.Callee(f.info, x).(*types.Func); callee != nil {
					mi = f.calleeMutates(callee, 0, map[*types.Func]bool{})
				}
				if sel, ok := x.Fun.(*ast.SelectorExpr); ok && (mi.recv || mi.all) {
					if s := f.info.Selections[sel]; s != nil && s.Kind() == types.MethodVal {
						if sig, ok := s.Obj().Type().(*types.Signature); ok && sig.Recv() != nil {
							if _, isPtr := sig.Recv().Type().(*types.Pointer); isPtr {
								add(sel.X)
							}
							// interface receivers are opaque handles: their state is not part of the
							// symbolic value (consistent with havocReachable)
						}
					}
				}
				for i, a := range x.Args {
					hit := mi.all
					if !hit && i < len(mi.params) {
						hit = mi.params[i]
					}
					if !hit && len(mi.params) > 0 && i >= len(mi.params) {
						hit = mi.params[len(mi.params)-1]
					}
					if !hit {
						continue
					}
					if tv, ok := f.info.Types[a]; ok && tv.Type != nil {
						switch tv.Type.Underlying().(type) {
						case *types.Pointer, *types.Slice, *types.Map:
							add(a)
						}
					}
				}
			case *ast.FuncLit:
				return true
			}
			return true
		})
	}
	var out []types.Object
	for o := range set {
		out = append(out, o)
	}
	sort.Slice(out, func(i, j int) bool { return out[i].Pos() < out[j].Pos() })
	return out
}

func (f *Frame) loopSpec() (*LoopSpec, int) {
	k := f.loopOrd
	f.loopOrd++
	if f.contract != nil {
		if ls := f.contract.Loops[k]; ls != nil {
			return ls, k
		}
	}
	return nil, k
}

// execLoop runs the invariant-based loop schema.
//   cond(st)  evaluates the loop guard in st (returns "true" for `for {}`)
//   body(st)  executes one iteration's body and returns the normal end state
//   post(st)  executes the post statement (may be nil)
func (f *Frame) execLoop(st *State, label string, n ast.Node, modified []types.Object, ls *LoopSpec, ord int,
	extraInv func(*State) []string, cond func(*State) string, body func(*State) *State, post func(*State) *State) *State {

	if !f.top && ls == nil {
		f.unsupported(n, "loop in inlined function without contract")
	}
	checkInv := func(s *State, phase string) {
		if ls == nil {
			return
		}
		for _, inv := range ls.Invariants {
			t := f.specBool(s, inv.Expr, f.loopSpecEnv(s))
			f.oblige(s, "loop", fmt.Sprintf("%d:%s:%s", ord, phase, inv.Label), t, n.Pos(), "loop invariant "+inv.Src)
		}
	}
	assumeInv := func(s *State) {
		if extraInv != nil {
			for _, t := range extraInv(s) {
				s.assume(t)
			}
		}
		if ls == nil {
			return
		}
		for _, inv := range ls.Invariants {
			s.assume(f.specBool(s, inv.Expr, f.loopSpecEnv(s)))
		}
	}
	// 1. invariant holds on entry
	checkInv(st, "init")
	// 2. arbitrary iteration: havoc modified variables
	head := st.fork()
	// A pointer parameter whose contract restricts `modifies` to field paths keeps, as an automatic loop
	// invariant, its loop-entry value outside those paths: the arbitrary iteration starts from a value
	// that differs from the loop-entry one only on the paths, and the invariant is checked after the body.
	type autoFrame struct {
		o     types.Object
		entry Val
		paths [][]string
	}
	var autoFrames []autoFrame
	var mp map[string][][]string
	if f.top && f.contract != nil && !f.contract.ModifiesAll && f.fn != nil {
		mp = modPaths(f.contract)
	}
	isParam := func(o types.Object) bool {
		sig := f.fn.Obj.Type().(*types.Signature)
		if sig.Recv() == o {
			return true
		}
		for i := 0; i < sig.Params().Len(); i++ {
			if sig.Params().At(i) == o {
				return true
			}
		}
		return false
	}
	for _, o := range modified {
		if cur, ok := head.env[o]; ok {
			if paths := mp[o.Name()]; len(paths) > 0 && isParam(o) {
				if _, isPtr := cur.Ty.Underlying().(*types.Pointer); isPtr && !isBigInt(cur.Ty) {
					nv := f.havocPaths(head, cur, paths)
					nv.Refs = cur.Refs
					head.env[o] = nv
					autoFrames = append(autoFrames, autoFrame{o, cur, paths})
					continue
				}
			}
			if rs, raw := f.c.rawSorts[o]; raw {
				head.env[o] = Val{T: f.c.fresh(o.Name(), rs)}
				continue
			}
			head.env[o] = f.havoc(head, o.Name(), o.Type())
		}
	}
	f.havocGhostInLoop(head, n)
	if len(f.c.tracked) > 0 {
		hasCall := false
		ast.Inspect(n, func(x ast.Node) bool {
			if _, ok := x.(*ast.CallExpr); ok {
				hasCall = true
			}
			return !hasCall
		})
		if hasCall {
			f.havocCalls(head)
		}
	}
	assumeInv(head)
	bc := &breakCtx{label: label, isLoop: true}
	f.brk = append(f.brk, bc)
	iter := head.fork()
	c := cond(iter)
	exit := iter.fork() // guard evaluation may have side conditions; exit path uses the same evaluation
	iter.assume(c)
	exit.assume(not(c))
	iterStart := iter.fork()
	if f.top && ls != nil {
		// vacuity canary: the body of a loop under contract must be reachable (main.go)
		f.c.loopPCs = append(f.c.loopPCs, loopPC{ord, append([]string(nil), iter.pc...)})
	}
	end := body(iter)
	f.brk = f.brk[:len(f.brk)-1]
	ends := append([]*State{end}, bc.continues...)
	merged := f.mergeStates(ends)
	// per-iteration postconditions: `each` at the end of the body of an arbitrary iteration (`continue`
	// paths included, before the post statement, so the loop variable still names this iteration);
	// `eachpost` after the post statement
	be := f.loopSpecEnv(iterStart)
	be.gh = map[string]Val{}
	for gk, gv := range iterStart.gh {
		be.gh[gk] = gv
	}
	checkEach := func(s *State, cl []Clause, kind string) {
		for _, ec := range cl {
			func() {
				defer f.specGuard(n, "loop "+kind+" "+ec.Label)
				env := f.loopSpecEnv(s)
				env.before = be
				t := f.specBool(s, ec.Expr, env)
				f.oblige(s, "loop", fmt.Sprintf("%d:%s:%s", ord, kind, ec.Label), t, n.Pos(), "every iteration: "+ec.Src)
			}()
		}
	}
	if merged != nil && ls != nil {
		checkEach(merged, ls.Each, "each")
	}
	if merged != nil {
		if post != nil {
			merged = post(merged)
		}
	}
	if merged != nil && ls != nil {
		checkEach(merged, ls.EachPost, "eachpost")
	}
	if merged != nil {
		if merged != nil {
			checkInv(merged, "step")
			for _, af := range autoFrames {
				cur, ok := merged.env[af.o]
				if !ok || cur.T == af.entry.T {
					continue
				}
				so := f.c.sorts.SortOf(cur.Ty)
				masked := f.maskPaths(merged, cur, af.entry, af.paths)
				f.oblige(merged, "loop", fmt.Sprintf("%d:step:frame_%s", ord, af.o.Name()),
					fmt.Sprintf("(= (%s.val %s) (%s.val %s))", so, masked.T, so, af.entry.T), n.Pos(),
					fmt.Sprintf("the loop changes *%s only on the contract's modifies paths", af.o.Name()))
			}
		}
	}
	outs := append([]*State{exit}, bc.breaks...)
	return f.mergeStates(outs)
}

// havocGhostInLoop: a loop whose body calls math/big methods may change the big-int heap.
func (f *Frame) havocGhostInLoop(st *State, loop ast.Node) {
	uses := false
	ast.Inspect(loop, func(n ast.Node) bool {
		if call, ok := n.(*ast.CallExpr); ok {
			if sel, ok := call.Fun.(*ast.SelectorExpr); ok {
				if tv, ok := f.info.Types[sel.X]; ok && tv.Type != nil && isBigInt(tv.Type) {
					uses = true
				}
			}
			for _, a := range call.Args {
				if tv, ok := f.info.Types[a]; ok && tv.Type != nil && isBigInt(tv.Type) {
					uses = true
				}
			}
		}
		return !uses
	})
	if !uses {
		return
	}
	old := st.gh[bigNextKey].T
	st.gh[bigHeapKey] = Val{T: f.c.fresh("bigheap", "(Array Int Int)")}
	st.gh[bigNextKey] = Val{T: f.c.fresh("bignext", "Int")}
	st.assume(fmt.Sprintf("(>= %s %s)", st.gh[bigNextKey].T, old))
}

func (f *Frame) execFor(st *State, x *ast.ForStmt, label string) *State {
	if x.Init != nil {
		st = f.execStmt(st, x.Init)
		if st == nil {
			return nil
		}
	}
	ls, ord := f.loopSpec()
	if ls != nil && ls.Unroll > 0 {
		return f.unrollFor(st, x, label, ls.Unroll)
	}
	mods := f.assignedIn(x.Body, x.Post, x.Cond)
	return f.execLoop(st, label, x, mods, ls, ord, nil,
		func(s *State) string {
			if x.Cond == nil {
				return "true"
			}
			return f.name("guard", f.eval(s, x.Cond)).T
		},
		func(s *State) *State { return f.execBlock(s, x.Body.List) },
		func(s *State) *State {
			if x.Post == nil {
				return s
			}
			return f.execStmt(s, x.Post)
		})
}

// unrollFor unrolls a loop n times and then requires the guard to be false (complete, not a bound).
func (f *Frame) unrollFor(st *State, x *ast.ForStmt, label string, n int) *State {
	bc := &breakCtx{label: label, isLoop: true}
	var outs []*State
	cur := st
	for i := 0; i <= n && cur != nil; i++ {
		c := "true"
		if x.Cond != nil {
			c = f.name("guard", f.eval(cur, x.Cond)).T
		}
		ex := cur.fork()
		ex.assume(not(c))
		outs = append(outs, ex)
		if i == n {
			// the loop must have terminated by now
			f.oblige(cur, "loop", fmt.Sprintf("unroll:%d:complete", n), not(c), x.Pos(), "loop terminates within the unroll count")
			break
		}
		cur.assume(c)
		f.brk = append(f.brk, bc)
		bc.continues = nil
		end := f.execBlock(cur, x.Body.List)
		f.brk = f.brk[:len(f.brk)-1]
		cur = f.mergeStates(append([]*State{end}, bc.continues...))
		if cur != nil && x.Post != nil {
			cur = f.execStmt(cur, x.Post)
		}
	}
	outs = append(outs, bc.breaks...)
	return f.mergeStates(outs)
}

func (f *Frame) execRange(st *State, x *ast.RangeStmt, label string) *State {
	ls, ord := f.loopSpec()
	coll := f.eval(st, x.X)
	if _, ok := coll.Ty.Underlying().(*types.Pointer); ok {
		coll = f.deref(st, coll, x)
	}
	keyObj, valObj := f.rangeVar(x.Key), f.rangeVar(x.Value)
	mods := f.assignedIn(x.Body)
	// the hidden index
	idxVar := types.NewVar(x.Pos(), nil, "#i", types.Typ[types.Int])
	switch u := coll.Ty.Underlying().(type) {
	case *types.Slice, *types.Array, *types.Basic:
		var length string
		switch uu := u.(type) {
		case *types.Slice:
			length = f.sliceLen(coll)
		case *types.Array:
			length = fmt.Sprint(uu.Len())
		case *types.Basic:
			if uu.Info()&types.IsInteger != 0 {
				length = coll.T // range over int
			} else if uu.Info()&types.IsString != 0 {
				f.unsupported(x, "range over string (runes)")
			} else {
				f.unsupported(x, "range over %v", coll.Ty)
			}
		}
		length = f.name("rlen", Val{T: length, Ty: types.Typ[types.Int]}).T
		st.env[idxVar] = Val{T: "0", Ty: types.Typ[types.Int]}
		if keyObj != nil && x.Tok == token.DEFINE {
			st.env[keyObj] = Val{T: "0", Ty: keyObj.Type()}
		}
		mods = append(mods, idxVar)
		if keyObj != nil {
			mods = append(mods, keyObj)
		}
		if valObj != nil {
			mods = append(mods, valObj)
			if x.Tok == token.DEFINE {
				st.env[valObj] = f.zero(valObj.Type())
			}
		}
		res := f.execLoop(st, label, x, mods, ls, ord,
			func(s *State) []string {
				i := s.env[idxVar].T
				out := []string{fmt.Sprintf("(<= 0 %s)", i), fmt.Sprintf("(<= %s %s)", i, length)}
				if keyObj != nil {
					// between iterations key == index is only established at the loop head
				}
				return out
			},
			func(s *State) string { return fmt.Sprintf("(< %s %s)", s.env[idxVar].T, length) },
			func(s *State) *State {
				i := s.env[idxVar]
				if keyObj != nil {
					s.env[keyObj] = Val{T: i.T, Ty: keyObj.Type()}
				} else if x.Key != nil && !isBlank(x.Key) {
					f.assign(s, x.Key, i)
				}
				if x.Value != nil && !isBlank(x.Value) {
					_, isInt := u.(*types.Basic)
					if !isInt {
						ev := f.indexVal(s, coll, i, x, false)
						if valObj != nil {
							s.env[valObj] = ev
						} else {
							f.assign(s, x.Value, ev)
						}
					}
				}
				return f.execBlock(s, x.Body.List)
			},
			func(s *State) *State {
				s.env[idxVar] = Val{T: fmt.Sprintf("(+ %s 1)", s.env[idxVar].T), Ty: types.Typ[types.Int]}
				return s
			})
		if res != nil {
			delete(res.env, idxVar)
		}
		return res
	case *types.Map:
		so := f.c.sorts.SortOf(coll.Ty)
		ks := f.c.sorts.SortOf(u.Key())
		visitedVar := types.NewVar(x.Pos(), nil, "#visited", nil)
		visSort := fmt.Sprintf("(Array %s Bool)", ks)
		st.env[visitedVar] = Val{T: fmt.Sprintf("((as const %s) false)", visSort), Ty: nil}
		f.c.rawSorts[visitedVar] = visSort
		mods = append(mods, visitedVar)
		if keyObj != nil {
			mods = append(mods, keyObj)
			if x.Tok == token.DEFINE {
				st.env[keyObj] = f.zero(keyObj.Type())
			}
		}
		if valObj != nil {
			mods = append(mods, valObj)
			if x.Tok == token.DEFINE {
				st.env[valObj] = f.zero(valObj.Type())
			}
		}
		// whether the map itself is modified in the body
		for _, m := range mods {
			if o := f.rootObj(x.X); o != nil && o == m {
				f.unsupported(x, "map modified while ranging over it")
			}
		}
		hasMore := func(s *State) string {
			// exists an unvisited key: represented by a fresh witness chosen at the loop head
			return ""
		}
		_ = hasMore
		var pick string
		res := f.execLoop(st, label, x, mods, ls, ord,
			func(s *State) []string {
				// visited ⊆ dom
				return nil
			},
			func(s *State) string {
				// nondeterministic: either some key remains (witness `pick`) or all are visited
				pick = f.c.fresh("pick", ks)
				more := f.c.fresh("more", "Bool")
				vis := s.env[visitedVar].T
				s.assume(fmt.Sprintf("(=> %s (and (select (%s.dom %s) %s) (not (select %s %s))))", more, so, coll.T, pick, vis, pick))
				s.assume(fmt.Sprintf("(=> (not %s) (forall ((k!q %s)) (=> (select (%s.dom %s) k!q) (select %s k!q))))", more, ks, so, coll.T, vis))
				return more
			},
			func(s *State) *State {
				kv := Val{T: pick, Ty: f.typ(u.Key())}
				for _, inv := range f.c.sorts.TypeInv(kv.T, kv.Ty, 0) {
					s.assume(inv)
				}
				if keyObj != nil {
					s.env[keyObj] = kv
				} else if x.Key != nil && !isBlank(x.Key) {
					f.assign(s, x.Key, kv)
				}
				if x.Value != nil && !isBlank(x.Value) {
					ev, _ := f.mapLookup(s, coll, kv)
					if valObj != nil {
						s.env[valObj] = ev
					} else {
						f.assign(s, x.Value, ev)
					}
				}
				s.env[visitedVar] = Val{T: fmt.Sprintf("(store %s %s true)", s.env[visitedVar].T, pick)}
				return f.execBlock(s, x.Body.List)
			}, nil)
		if res != nil {
			delete(res.env, visitedVar)
		}
		return res
	}
	f.unsupported(x, "range over %v", coll.Ty)
	return nil
}

func isBlank(e ast.Expr) bool {
	id, ok := e.(*ast.Ident)
	return ok && id.Name == "_"
}

func (f *Frame) rangeVar(e ast.Expr) types.Object {
	if e == nil {
		return nil
	}
	id, ok := e.(*ast.Ident)
	if !ok || id.Name == "_" {
		return nil
	}
	return f.info.ObjectOf(id)
}

func (f *Frame) rootObj(e ast.Expr) types.Object {
	switch x := ast.Unparen(e).(type) {
	case *ast.Ident:
		return f.info.ObjectOf(x)
	case *ast.SelectorExpr:
		return f.rootObj(x.X)
	case *ast.IndexExpr:
		return f.rootObj(x.X)
	case *ast.StarExpr:
		return f.rootObj(x.X)
	}
	return nil
}
