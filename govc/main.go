package main

import (
	"regexp"
	"encoding/json"
	"flag"
	"fmt"
	"io/fs"
	"os"
	"path/filepath"
	"sort"
	"strconv"
	"strings"
	"sync"
	"time"
)

type PropConfig struct {
	ID         string   `json:"id"`
	Packages   []string `json:"packages"`
	Functions  []string `json:"functions"` // contract keys, module-relative: data/basics.OAdd
	Lemmas     []string `json:"lemmas"`
	Owns       []string `json:"owns"`
	NotCovered string   `json:"not_covered"`
	TimeoutS   int      `json:"timeout_s"`
	Trusted    []string `json:"trusted_base"`
	Verdict    string   `json:"verdict"`
}

type KnownFindings struct {
	Findings []KnownFinding `json:"findings"`
	Fixed    []string       `json:"fixed"`
}
type KnownFinding struct {
	Property   string `json:"property"`
	Obligation string `json:"obligation"`
	What       string `json:"what"`
}

type OblReport struct {
	Name    string         `json:"name"`
	Kind    string         `json:"kind"`
	Result  string         `json:"result"`
	Solver  string         `json:"solver"`
	Ms      int64          `json:"ms"`
	Pos     string         `json:"pos,omitempty"`
	Clause  string         `json:"clause,omitempty"`
	All     []SolverResult `json:"-"`
	Model   string         `json:"-"`
	obl     *Obligation
	QueryKB int `json:"query_kb"`
}

func main() {
	if len(os.Args) < 2 {
		fmt.Fprintln(os.Stderr, "usage: govc check|list --prop <id> [--tier quick|thorough]")
		os.Exit(2)
	}
	cmd := os.Args[1]
	fl := flag.NewFlagSet(cmd, flag.ExitOnError)
	prop := fl.String("prop", "", "property id")
	tier := fl.String("tier", envOr("VERIF_TIER", "quick"), "quick|thorough")
	repo := fl.String("repo", envOr("REPO", "/repo"), "repository root")
	root := fl.String("root", envOr("VERIF_ROOT", "/verif"), "verif root")
	only := fl.String("only", "", "restrict to functions whose name contains this substring")
	keep := fl.Bool("keep", false, "keep SMT files")
	verbose := fl.Bool("v", false, "verbose")
	writeExpected := fl.Bool("write-expected", false, "(list) write expected/<id>.obligations")
	fl.Parse(os.Args[2:])
	switch cmd {
	case "check", "list":
		os.Exit(runCheck(cmd, *prop, *tier, *repo, *root, *only, *keep, *verbose, *writeExpected))
	default:
		fmt.Fprintln(os.Stderr, "unknown command", cmd)
		os.Exit(2)
	}
}

var (
	reExitOrd = regexp.MustCompile(`@exit\d+$`)
	reSiteOrd = regexp.MustCompile(`#\d+$`)
)

// pinStem maps an obligation name to the contract line it comes from, or "" when the obligation is
// derived from the code alone (no-panic, callee precondition, frame, ownership sites).
func pinStem(name string) string {
	switch {
	case name == "", strings.Contains(name, ":step:frame_"):
		return ""
	case strings.Contains(name, "#ensures:"):
		return reExitOrd.ReplaceAllString(name, "@exit*")
	case strings.Contains(name, "#assert:"):
		return reSiteOrd.ReplaceAllString(name, "#*")
	case strings.Contains(name, "#loop:"), strings.Contains(name, ".lemma:"), strings.HasSuffix(name, "#bind"):
		return name
	}
	return ""
}

func envOr(k, d string) string {
	if v := os.Getenv(k); v != "" {
		return v
	}
	return d
}

func loadAllSpecs(repo, root string) (*Specs, error) {
	sp := newSpecs()
	std, _ := filepath.Glob(filepath.Join(root, "contracts", "std", "*.spec"))
	sort.Strings(std)
	for _, f := range std {
		if err := sp.loadSpecFile(f, ""); err != nil {
			return nil, err
		}
	}
	var files []string
	err := filepath.WalkDir(repo, func(p string, d fs.DirEntry, err error) error {
		if err != nil {
			return nil
		}
		if d.IsDir() {
			n := d.Name()
			if n == ".git" || n == "node_modules" || n == "libsodium-fork" || n == "test" && filepath.Dir(p) == repo {
				return filepath.SkipDir
			}
			return nil
		}
		if d.Name() == "verif_contracts.go" {
			files = append(files, p)
		}
		return nil
	})
	if err != nil {
		return nil, err
	}
	sort.Strings(files)
	for _, f := range files {
		rel, _ := filepath.Rel(repo, filepath.Dir(f))
		if err := sp.loadSpecFile(f, modPath+"/"+filepath.ToSlash(rel)); err != nil {
			return nil, err
		}
	}
	return sp, nil
}

func runCheck(cmd, prop, tier, repo, root, only string, keep, verbose, writeExpected bool) int {
	t0 := time.Now()
	if prop == "" {
		fmt.Fprintln(os.Stderr, "--prop required")
		return 2
	}
	var cfg PropConfig
	b, err := os.ReadFile(filepath.Join(root, "props", prop+".json"))
	if err != nil {
		fmt.Fprintln(os.Stderr, "BROKEN:", err)
		return 2
	}
	if err := json.Unmarshal(b, &cfg); err != nil {
		fmt.Fprintln(os.Stderr, "BROKEN: props file:", err)
		return 2
	}
	if cfg.TimeoutS == 0 {
		cfg.TimeoutS = 10
	}
	timeout := cfg.TimeoutS
	if tier == "thorough" {
		timeout *= 6
	}
	if hb, err := os.ReadFile(filepath.Join(root, "expected", prop+".hints")); err == nil {
		json.Unmarshal(hb, &solverHints)
	}
	specs, err := loadAllSpecs(repo, root)
	if err != nil {
		fmt.Fprintln(os.Stderr, "BROKEN: contracts:", err)
		return 2
	}
	w, err := loadWorld(repo, root, cfg.Packages)
	if err != nil {
		// the tree does not type-check: nothing can be decided
		fmt.Fprintln(os.Stderr, "BROKEN: load:", err)
		return 2
	}
	tLoad := time.Since(t0)

	// generate
	var results []*FuncResult
	for _, fk := range cfg.Functions {
		// "pkg.Func@regex": only the obligations of this function whose name matches are this property's
		var filter *regexp.Regexp
		if at := strings.Index(fk, "@"); at >= 0 {
			filter = regexp.MustCompile(fk[at+1:])
			fk = fk[:at]
		}
		key := modPath + "/" + fk
		ct := specs.Contracts[key]
		if ct == nil {
			results = append(results, &FuncResult{Name: shortKey(key), Key: key, BindErr: "no contract found for " + key})
			continue
		}
		if only != "" && !strings.Contains(ct.Name, only) {
			continue
		}
		insts := ct.Insts
		if len(insts) == 0 {
			insts = []map[string]string{nil}
		}
		for _, inst := range insts {
			r := verifyFunction(w, specs, ct, inst)
			if filter != nil {
				var kept []*Obligation
				for _, o := range r.Obls {
					if filter.MatchString(o.Name) {
						kept = append(kept, o)
					}
				}
				r.Obls = kept
			}
			results = append(results, r)
		}
	}
	var lemmaObls []*Obligation
	for _, ln := range cfg.Lemmas {
		lo, err := lemmaObligation(w, specs, modPath+"/"+ln)
		if err != nil {
			results = append(results, &FuncResult{Name: "lemma:" + ln, Key: ln, BindErr: err.Error()})
			continue
		}
		lemmaObls = append(lemmaObls, lo...)
	}
	for _, on := range cfg.Owns {
		oo, err := ownsObligations(w, specs, modPath+"/"+on)
		if err != nil {
			results = append(results, &FuncResult{Name: "owns:" + on, Key: on, BindErr: err.Error()})
			continue
		}
		lemmaObls = append(lemmaObls, oo...)
	}
	tGen := time.Since(t0) - tLoad

	var all []*Obligation
	for _, r := range results {
		all = append(all, r.Obls...)
	}
	all = append(all, lemmaObls...)
	if cmd == "list" {
		var names []string
		for _, o := range all {
			names = append(names, o.Name)
		}
		for _, r := range results {
			if r.BindErr != "" {
				fmt.Fprintf(os.Stderr, "BIND FAILURE %s: %s\n", r.Name, r.BindErr)
			}
		}
		sort.Strings(names)
		out := strings.Join(names, "\n") + "\n"
		if writeExpected {
			os.MkdirAll(filepath.Join(root, "expected"), 0o755)
			os.WriteFile(filepath.Join(root, "expected", prop+".obligations"), []byte(out), 0o644)
		}
		fmt.Print(out)
		return 0
	}

	// discharge
	smtDir, _ := os.MkdirTemp("/var/tmp", "govc-"+prop+"-")
	if !keep {
		defer os.RemoveAll(smtDir)
	} else {
		fmt.Fprintln(os.Stderr, "SMT files in", smtDir)
	}
	reports := make([]*OblReport, len(all))
	var wg sync.WaitGroup
	sem := make(chan struct{}, 12)
	for i, o := range all {
		wg.Add(1)
		go func(i int, o *Obligation) {
			defer wg.Done()
			sem <- struct{}{}
			defer func() { <-sem }()
			q := buildQuery(o, true, false)
			// stage 1: a third of the budget on the whole query; stage 2: case split on a branch
			// condition; stage 3: the full budget
			var best SolverResult
			var allr []SolverResult
			provedQuery := q // the variant of the query that was discharged (thorough re-checks it on every solver)
			if os.Getenv("VERIF_NO_FOCUS") == "" && len(o.PC) > 40 {
				// stage -1 (long paths only): the focused query -- only the path facts about what the goal reads
				oc := *o
				oc.Focus = true
				qc := buildQuery(&oc, true, false)
				if rc := quickSolve(qc, smtDir, o.Name+"-focus", max(4, timeout/8)); rc.Result == "unsat" {
					rc.Solver += "(focused)"
					best, allr = rc, []SolverResult{rc}
					provedQuery = qc
				} else if rs, ok := splitDischarge(o, smtDir, max(8, timeout/4), true); ok {
					// the same, one case per branch of the join the obligation sits behind
					best, allr = rs, []SolverResult{rs}
					provedQuery = qc
				}
			}
			if best.Result != "unsat" && len(o.Ctx.qaxioms) > 0 {
				// stage 0: without the quantified spec-function axioms (fewer assumptions: still a proof)
				o0 := *o
				o0.NoQAxioms = true
				o0.NoFAxioms = true
				q0 := buildQuery(&o0, true, false)
				if r0 := quickSolve(q0, smtDir, o.Name+"-ground", max(8, timeout/3)); r0.Result == "unsat" {
					r0.Solver += "(ground)"
					best, allr = r0, []SolverResult{r0}
					provedQuery = q0
				}
			}
			if best.Result != "unsat" && len(o.Ctx.faxioms) > 0 {
				// stage 0b: without the function axioms of pure functions (fewer assumptions: still a proof;
				// a `sat` here is not a counterexample, the axioms may exclude it)
				o0 := *o
				o0.NoFAxioms = true
				q0b := buildQuery(&o0, true, false)
				r0, a0 := discharge(q0b, smtDir, o.Name+"-nofax", max(3, timeout/3), false)
				if r0.Result == "unsat" {
					r0.Solver += "(no function axioms)"
					best, allr = r0, a0
					provedQuery = q0b
				}
			}
			if best.Result != "unsat" {
				best, allr = discharge(q, smtDir, o.Name, max(3, timeout/3), false)
			}
			// the queries so far leave out range facts outside the goal's cone of influence (smt.go); the
			// full query has every collected fact
			oF := *o
			oF.Full = true
			qFull := buildQuery(&oF, true, false)
			if best.Result == "sat" && qFull != q {
				// a counterexample of the pruned query may break a fact that was left out: ask the full query
				best, allr = discharge(qFull, smtDir, o.Name+"-fullctx", max(3, timeout/2), false)
				if best.Result == "unsat" {
					provedQuery = qFull
				}
			}
			if best.Result != "unsat" && best.Result != "sat" && os.Getenv("VERIF_FAST_FAIL") != "" {
				// must-fail corpus runs: an obligation that is not discharged by the first stages is reported
				// as undischarged right away (never used for the registered checks)
				best.Result = "unknown"
			} else if best.Result != "unsat" && best.Result != "sat" {
				if r, ok := splitDischarge(o, smtDir, max(3, timeout/2), false); ok {
					best = r
					allr = append(allr, r)
				} else {
					best, allr = discharge(q, smtDir, o.Name, timeout, false)
					if best.Result != "unsat" && qFull != q {
						best, allr = discharge(qFull, smtDir, o.Name+"-fullctx", timeout, false)
						if best.Result == "unsat" {
							provedQuery = qFull
						}
					}
				}
			}
			if tier == "thorough" && best.Result == "unsat" {
				// thorough: the discharged query is run to the end on every solver; a solver answering `sat`
				// where another proved `unsat` is a disagreement (unknown/timeout answers are not)
				// (the query with every assumption: each staged variant that was discharged is this query with
				// assumptions left out, so its `unsat` carries over, whereas a `sat` of a pruned or focused
				// variant would mean nothing)
				_ = provedQuery
				_, all2 := discharge(qFull, smtDir, o.Name+"-all", timeout, true)
				allr = append(allr, all2...)
			}
			rep := &OblReport{Name: o.Name, Kind: o.Kind, Result: best.Result, Solver: best.Solver, Ms: best.Ms, Pos: o.Pos, Clause: o.Src, All: allr, obl: o, QueryKB: len(q) / 1024}
			if tier == "thorough" {
				// disagreement between solvers is a failure of the machinery, reported as undischarged
				seen := map[string]bool{}
				for _, r := range allr {
					if r.Result == "sat" || r.Result == "unsat" {
						seen[r.Result] = true
					}
				}
				if seen["sat"] && seen["unsat"] {
					rep.Result = "disagree"
				}
			}
			if rep.Result == "sat" {
				// ask again for a model
				qm := buildQuery(&oF, true, true)
				bm, _ := discharge(qm, smtDir, o.Name+"-model", timeout, false)
				if bm.Result == "sat" {
					rep.Model = bm.Model
				}
			}
			reports[i] = rep
		}(i, o)
	}
	wg.Wait()

	// vacuity guards
	type vac struct {
		Fn     string `json:"function"`
		Check  string `json:"check"`
		Result string `json:"result"`
	}
	var vacs []vac
	broken := false
	var vmu sync.Mutex
	var vwg sync.WaitGroup
	for _, r := range results {
		if r.Ctx == nil || r.BindErr != "" || r.Trusted {
			continue
		}
		c := r.Ctx
		vwg.Add(1)
		go func(r *FuncResult) {
			defer vwg.Done()
			sem <- struct{}{}
			defer func() { <-sem }()
			o := &Obligation{Name: r.Name + "#vacuity:requires", Decls: c.preDecls, PC: c.prePC, Goal: "", Ctx: c, Full: true}
			best := quickSolve(buildQuery(o, false, false), smtDir, o.Name, 3)
			vmu.Lock()
			vacs = append(vacs, vac{r.Name, "requires-satisfiable", best.Result})
			if best.Result == "unsat" {
				broken = true
				fmt.Printf("BROKEN: preconditions of %s are contradictory\n", r.Name)
			}
			vmu.Unlock()
			// at least one exit reachable (canary: `ensures false` must not be provable)
			reach := "none"
			for ei, pc := range c.exitPCs {
				eo := &Obligation{Name: fmt.Sprintf("%s#vacuity:exit%d", r.Name, ei), Decls: len(c.decls), PC: pc, Goal: "", Ctx: c, Full: true}
				// one solver, short limit: anything but `unsat` means the exit is not provably dead
				b2 := quickSolve(buildQuery(eo, false, false), smtDir, eo.Name, 3)
				if b2.Result != "unsat" {
					reach = b2.Result
					break
				}
			}
			// the body of every loop under contract is reachable (an unreachable body makes its invariants
			// and per-iteration clauses hold vacuously -- e.g. when a decoder call was modelled as leaving its
			// output untouched, the "empty chunk" error return swallowed the whole record loop)
			failedIn := func() bool {
				for _, rep := range reports {
					if rep != nil && strings.HasPrefix(rep.Name, r.Name+"#") && rep.Result != "unsat" {
						return true
					}
				}
				return false
			}
			// every conditional postcondition `A ==> B` has an exit at which A can hold (a clause whose
			// antecedent is excluded at every exit -- e.g. because the success path became unreachable --
			// says nothing). Exits are tried last to first; anything but `unsat` counts as reachable.
			{
				byStem := map[string][]*OblReport{}
				var stems []string
				for _, rep := range reports {
					if rep == nil || rep.obl == nil || rep.obl.Kind != "ensures" || rep.obl.Ctx != c {
						continue
					}
					stem := reExitOrd.ReplaceAllString(rep.Name, "")
					if _, ok := byStem[stem]; !ok {
						stems = append(stems, stem)
					}
					byStem[stem] = append(byStem[stem], rep)
				}
				for _, stem := range stems {
					reps := byStem[stem]
					covered := ""
					conditional := false
					for i := len(reps) - 1; i >= 0; i-- {
						g, ok := parseSx(reps[i].obl.Goal)
						if !ok || g.head() != "=>" || len(g.kids) != 3 {
							covered = "unconditional"
							break
						}
						conditional = true
						co := &Obligation{Name: reps[i].Name + "#vacuity:antecedent", Decls: len(c.decls), PC: reps[i].obl.PC, Goal: g.kids[1].String(), Ctx: c, Full: true}
						if b5 := quickSolve(buildQuery(co, false, false), smtDir, co.Name, 3); b5.Result != "unsat" {
							covered = b5.Result
							break
						}
					}
					if !conditional || covered == "unconditional" {
						continue
					}
					vmu.Lock()
					if covered == "" {
						covered = "none"
					}
					vacs = append(vacs, vac{r.Name, "canary-antecedent-coverable:" + strings.TrimPrefix(stem, r.Name+"#"), covered})
					if covered == "none" {
						if failedIn() {
							fmt.Printf("note: the antecedent of %s holds at no exit once an earlier failed obligation is assumed\n", stem)
						} else {
							broken = true
							fmt.Printf("BROKEN: the antecedent of %s can hold at no exit of the function (the clause would hold vacuously)\n", stem)
						}
					}
					vmu.Unlock()
				}
			}
			// every site of an `assert at ...` clause is reachable (an assertion behind a dead branch holds vacuously)
			for _, rep := range reports {
				if rep == nil || rep.obl == nil || rep.obl.Kind != "assert" || rep.obl.Ctx != c {
					continue
				}
				so := &Obligation{Name: rep.Name + "#vacuity:site", Decls: len(c.decls), PC: rep.obl.PC, Goal: "", Ctx: c, Full: true}
				b4 := quickSolve(buildQuery(so, false, false), smtDir, so.Name, 3)
				vmu.Lock()
				vacs = append(vacs, vac{r.Name, "canary-site-reachable:" + strings.TrimPrefix(rep.Name, r.Name+"#"), b4.Result})
				if b4.Result == "unsat" {
					if failedIn() {
						fmt.Printf("note: the site of %s is unreachable once an earlier failed obligation is assumed\n", rep.Name)
					} else {
						broken = true
						fmt.Printf("BROKEN: the site of %s is unreachable under the function's assumptions (the assertion would hold vacuously)\n", rep.Name)
					}
				}
				vmu.Unlock()
			}
			for _, lp := range c.loopPCs {
				lo := &Obligation{Name: fmt.Sprintf("%s#vacuity:loop%d", r.Name, lp.ord), Decls: len(c.decls), PC: lp.pc, Goal: "", Ctx: c, Full: true}
				b3 := quickSolve(buildQuery(lo, false, false), smtDir, lo.Name, 3)
				vmu.Lock()
				vacs = append(vacs, vac{r.Name, fmt.Sprintf("canary-loop%d-body-reachable", lp.ord), b3.Result})
				if b3.Result == "unsat" {
					if failedIn() {
						fmt.Printf("note: the body of loop %d of %s is unreachable once its failed obligation is assumed (reported above as a violation)\n", lp.ord, r.Name)
					} else {
						broken = true
						fmt.Printf("BROKEN: the body of loop %d of %s is unreachable under its assumptions (its loop contract would hold vacuously)\n", lp.ord, r.Name)
					}
				}
				vmu.Unlock()
			}
			vmu.Lock()
			vacs = append(vacs, vac{r.Name, "canary-exit-reachable", reach})
			if reach == "none" && len(c.exitPCs) > 0 {
				// a failed assertion / invariant / callee precondition is assumed after its check, so a function
				// in which one fails on every path has no reachable exit *because of the reported violation*:
				// that is the violation's doing, not a vacuous contract
				failedInside := false
				for _, rep := range reports {
					if rep != nil && strings.HasPrefix(rep.Name, r.Name+"#") && rep.Result != "unsat" {
						failedInside = true
					}
				}
				if failedInside {
					fmt.Printf("note: no exit of %s is reachable once its failed obligation is assumed (reported above as a violation)\n", r.Name)
				} else {
					broken = true
					fmt.Printf("BROKEN: no exit of %s is reachable under its assumptions (ensures false would be provable)\n", r.Name)
				}
			}
			vmu.Unlock()
		}(r)
	}
	vwg.Wait()

	// expected obligations
	// The pinned list is compared by stem: contract-derived obligations (ensures, loop invariants, call-site
	// assertions, lemmas) must still be generated for each contract line, at one exit or site at least;
	// exit and site ordinals, and the code-derived safety and frame obligations, may come and go with
	// harmless edits and are not pinned.
	have := map[string]bool{}
	for _, o := range all {
		if st := pinStem(o.Name); st != "" {
			have[st] = true
		}
	}
	var missing []string
	if eb, err := os.ReadFile(filepath.Join(root, "expected", prop+".obligations")); err == nil {
		seen := map[string]bool{}
		for _, ln := range strings.Split(string(eb), "\n") {
			st := pinStem(strings.TrimSpace(ln))
			if st == "" || have[st] || seen[st] {
				continue
			}
			seen[st] = true
			if only != "" {
				continue
			}
			missing = append(missing, st)
		}
	} else if only == "" {
		fmt.Printf("BROKEN: expected/%s.obligations missing\n", prop)
		broken = true
	}

	// known findings
	var kf KnownFindings
	if kb, err := os.ReadFile(filepath.Join(root, "known_findings.json")); err == nil {
		json.Unmarshal(kb, &kf)
	}
	known := map[string]KnownFinding{}
	for _, k := range kf.Findings {
		if k.Property == prop {
			known[k.Obligation] = k
		}
	}

	// verdicts
	replayDir := filepath.Join(envOr("VERIF_OUT", root), "replay", prop)
	os.MkdirAll(replayDir, 0o755)
	violations := 0
	discharged := 0
	var solverMs int64
	knownSeen := map[string]bool{}
	for _, rep := range reports {
		solverMs += rep.Ms
		if rep.Result == "unsat" {
			discharged++
			continue
		}
		if k, ok := known[rep.Name]; ok {
			fmt.Printf("KNOWN-FINDING: property=%s %s (%s)\n", prop, k.What, rep.Name)
			knownSeen[rep.Name] = true
			continue
		}
		violations++
		path := filepath.Join(replayDir, sanitizeFile(rep.Name)+".json")
		suffix := " no-failing-input-found"
		rp := map[string]any{"property": prop, "obligation": rep.Name, "kind": rep.Kind, "clause": rep.Clause, "position": rep.Pos, "solver_result": rep.Result, "solver": rep.Solver}
		var outs []map[string]any
		for _, r := range rep.All {
			outs = append(outs, map[string]any{"solver": r.Solver, "result": r.Result, "ms": r.Ms, "output": truncateStr(r.Raw, 2000)})
		}
		rp["solver_outputs"] = outs
		if rep.Model != "" {
			rp["model"] = rep.Model
			outcome, detail := replayOnRealCode(w, root, rep, smtDir)
			rp["replay_outcome"] = outcome
			rp["replay_detail"] = detail
			if outcome == "REPLAY-CONFIRMED" {
				suffix = ""
			}
		} else {
			rp["replay_outcome"] = "REPLAY-UNAVAILABLE"
			rp["replay_detail"] = "the solver returned no model (" + rep.Result + ")"
		}
		jb, _ := json.MarshalIndent(rp, "", " ")
		os.WriteFile(path, jb, 0o644)
		fmt.Printf("FAILED %s: %s [%s] at %s -- %s\n", rep.Name, rep.Result, rep.Solver, rep.Pos, rep.Clause)
		fmt.Printf("VIOLATION property=%s replay=%s%s\n", prop, path, suffix)
	}
	for _, r := range results {
		if r.BindErr == "" {
			continue
		}
		name := r.Name + "#bind"
		if k, ok := known[name]; ok {
			fmt.Printf("KNOWN-FINDING: property=%s %s (%s)\n", prop, k.What, name)
			continue
		}
		violations++
		path := filepath.Join(replayDir, sanitizeFile(name)+".json")
		jb, _ := json.MarshalIndent(map[string]any{"property": prop, "obligation": name, "reason": r.BindErr,
			"replay_outcome": "REPLAY-UNAVAILABLE", "note": "the function under contract could not be bound or left the verified subset; the property can no longer be decided for it"}, "", " ")
		os.WriteFile(path, jb, 0o644)
		fmt.Printf("FAILED %s: %s\n", name, r.BindErr)
		fmt.Printf("VIOLATION property=%s replay=%s no-failing-input-found\n", prop, path)
	}
	for _, m := range missing {
		violations++
		name := m + "#missing"
		path := filepath.Join(replayDir, sanitizeFile(name)+".json")
		jb, _ := json.MarshalIndent(map[string]any{"property": prop, "obligation": m, "reason": "obligation pinned in expected/" + prop + ".obligations is no longer generated (contract line, loop, exit or panic site disappeared)", "replay_outcome": "REPLAY-UNAVAILABLE"}, "", " ")
		os.WriteFile(path, jb, 0o644)
		fmt.Printf("FAILED %s: pinned obligation no longer generated\n", m)
		fmt.Printf("VIOLATION property=%s replay=%s no-failing-input-found\n", prop, path)
	}

	if os.Getenv("VERIF_WRITE_HINTS") != "" && only == "" {
		hints := map[string]string{}
		for _, rep := range reports {
			if rep.Result == "unsat" && !strings.Contains(rep.Solver, "+") && (rep.Solver != "z3-new" || rep.Ms > 1500) {
				hints[rep.Name] = rep.Solver
			}
		}
		hb, _ := json.MarshalIndent(hints, "", " ")
		os.WriteFile(filepath.Join(root, "expected", prop+".hints"), hb, 0o644)
	}
	// evidence
	writeEvidence(root, prop, tier, &cfg, results, reports, vacs, violations, discharged, len(knownSeen), time.Since(t0), tLoad, tGen, solverMs, specs)
	if verbose {
		for _, rep := range reports {
			fmt.Fprintf(os.Stderr, "  %-70s %-8s %-7s %5dms %dKB\n", rep.Name, rep.Result, rep.Solver, rep.Ms, rep.QueryKB)
		}
	}
	fmt.Printf("%s: %d obligations, %d discharged, %d violations, %d known findings; load %.1fs gen %.1fs total %.1fs\n",
		prop, len(reports), discharged, violations, len(knownSeen), tLoad.Seconds(), tGen.Seconds(), time.Since(t0).Seconds())
	if broken {
		return 2
	}
	if violations > 0 {
		return 1
	}
	if len(reports) == 0 {
		fmt.Println("BROKEN: zero obligations generated")
		return 2
	}
	return 0
}

func writeEvidence(root, prop, tier string, cfg *PropConfig, results []*FuncResult, reports []*OblReport, vacs any, violations, discharged, knownCount int, wall, tLoad, tGen time.Duration, solverMs int64, specs *Specs) {
	seed, _ := strconv.Atoi(os.Getenv("VERIF_SEED"))
	var fns []string
	notes := map[string]bool{}
	inlined := map[string]bool{}
	dropped := map[string]bool{}
	assumed := map[string]bool{}
	trusted := map[string]bool{}
	for _, r := range results {
		fns = append(fns, r.Name)
		if r.Ctx == nil {
			continue
		}
		for k := range r.Ctx.notes {
			notes[k] = true
		}
		for k := range r.Ctx.inlined {
			inlined[shortKey(k)] = true
		}
		for k := range r.Ctx.dropped {
			dropped[shortKey(k)] = true
		}
		for k := range r.Ctx.assumedContracts {
			ct := specs.Contracts[k]
			if ct != nil && ct.Trusted != "" {
				trusted[shortKey(k)+": "+ct.Trusted] = true
			} else {
				assumed[shortKey(k)] = true
			}
		}
	}
	verified := map[string]bool{}
	for _, r := range results {
		verified[shortKey(r.Key)] = true
	}
	var assumedElsewhere []string
	for k := range assumed {
		if !verified[k] {
			assumedElsewhere = append(assumedElsewhere, k)
		}
	}
	sort.Strings(assumedElsewhere)
	keys := func(m map[string]bool) []string {
		var out []string
		for k := range m {
			out = append(out, k)
		}
		sort.Strings(out)
		return out
	}
	var samples []any
	for i, rep := range reports {
		if i%max(1, len(reports)/6) == 0 && len(samples) < 8 {
			samples = append(samples, map[string]any{"obligation": rep.Name, "clause": rep.Clause, "position": rep.Pos, "result": rep.Result, "solver": rep.Solver, "ms": rep.Ms, "query_kb": rep.QueryKB})
		}
	}
	bySolver := map[string]int{}
	for _, rep := range reports {
		if rep.Result == "unsat" {
			bySolver[rep.Solver]++
		}
	}
	tb := []string{
		"the VC generator govc (its Go semantics, checked by the must-fail selftest corpus)",
		"go/types and go/packages",
		"SMT solvers z3 4.8.12, z3 5.1.0, cvc5 1.0",
		"machine integers modelled as mathematical Int with explicit wrap-around; int/uint are 64-bit",
		"no aliasing between distinct pointer/slice/map values; pointer parameters non-nil",
	}
	tb = append(tb, cfg.Trusted...)
	for _, t := range keys(trusted) {
		tb = append(tb, "trusted contract: "+t)
	}
	assumptions := keys(notes)
	for _, a := range assumedElsewhere {
		assumptions = append(assumptions, "callee contract assumed here, proved under its own property: "+a)
	}
	if cfg.NotCovered != "" {
		assumptions = append(assumptions, "NOT COVERED by this check: "+cfg.NotCovered)
	}
	ev := map[string]any{
		"property_id": prop,
		"tier":        tier,
		"seed":        seed,
		"level":       "proof",
		"coverage": map[string]any{
			"obligations":              len(reports) - knownCount, // obligations listed as known findings are reported separately
			"discharged":               discharged + knownCount*0,
			"known_finding_obligations": knownCount,
			"checker_cmd":              fmt.Sprintf("/verif/check %s --tier %s", prop, tier),
			"trusted_base":             tb,
			"functions_under_contract": fns,
			"discharged_by_solver":     bySolver,
			"solver_time_s":            float64(solverMs) / 1000,
			"load_s":                   tLoad.Seconds(),
			"generate_s":               tGen.Seconds(),
			"vacuity":                  vacs,
			"inlined_callees":          keys(inlined),
			"dropped_calls":            keys(dropped),
			"per_obligation":           reports,
			"samples":                  samples,
			"verdict":                  cfg.Verdict,
			"not_covered":              cfg.NotCovered,
		},
		"assumptions": assumptions,
		"wall_s":      wall.Seconds(),
		"violations":  violations,
	}
	os.MkdirAll(filepath.Join(envOr("VERIF_OUT", root), "evidence"), 0o755)
	jb, _ := json.MarshalIndent(ev, "", " ")
	os.WriteFile(filepath.Join(envOr("VERIF_OUT", root), "evidence", prop+".json"), jb, 0o644)
}
