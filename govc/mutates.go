package main

import (
	"go/ast"
	"go/types"

	"golang.org/x/tools/go/types/typeutil"
)

// mutInfo says which of a callee's receiver/parameters may be written through.
type mutInfo struct {
	recv   bool
	params []bool
	all    bool // unknown callee: everything reachable may change
}

// calleeMutates determines, conservatively, which pointer/slice/map arguments a call may modify.
// Contracts are authoritative (modifies clauses, pure); small source-available callees are scanned;
// anything else is assumed to modify everything it can reach.
func (f *Frame) calleeMutates(fn *types.Func, depth int, seen map[*types.Func]bool) mutInfo {
	fn = fn.Origin()
	sig := fn.Type().(*types.Signature)
	np := sig.Params().Len()
	if ct := f.c.specs.Contracts[funcKey(fn)]; ct != nil {
		mi := mutInfo{params: make([]bool, np)}
		if ct.ModifiesAll {
			mi.recv = true
			for i := range mi.params {
				mi.params[i] = true
			}
			return mi
		}
		roots := map[string]bool{}
		for _, m := range ct.Modifies {
			roots[specRoot(m)] = true
		}
		if r := sig.Recv(); r != nil && roots[r.Name()] {
			mi.recv = true
		}
		for i := 0; i < np; i++ {
			if roots[sig.Params().At(i).Name()] {
				mi.params[i] = true
			}
		}
		return mi
	}
	if isLoggingCall(funcKey(fn)) {
		return mutInfo{params: make([]bool, np)}
	}
	if _, ok := stdHandlers[funcKey(fn)]; ok {
		return mutInfo{params: make([]bool, np)}
	}
	if _, ok := stdHandlersExtra[funcKey(fn)]; ok {
		// math/big methods write to the ghost heap (havocked separately), not to Go variables
		return mutInfo{params: make([]bool, np)}
	}
	src := f.c.w.funcs[fn]
	if src == nil || depth > 4 || seen[fn] {
		return mutInfo{all: true}
	}
	if r := sig.Recv(); r != nil {
		if _, isIfc := r.Type().Underlying().(*types.Interface); isIfc {
			return mutInfo{all: true}
		}
	}
	seen[fn] = true
	defer delete(seen, fn)
	info := src.Pkg.TypesInfo
	mi := mutInfo{params: make([]bool, np)}
	index := map[types.Object]int{} // -1 receiver, i param
	if r := sig.Recv(); r != nil {
		index[r] = -1
	}
	for i := 0; i < np; i++ {
		index[sig.Params().At(i)] = i
	}
	mark := func(o types.Object) {
		k, ok := index[o]
		if !ok {
			return
		}
		// only reference-like parameters propagate writes to the caller
		switch o.Type().Underlying().(type) {
		case *types.Pointer, *types.Slice, *types.Map:
		default:
			return
		}
		if k < 0 {
			mi.recv = true
		} else {
			mi.params[k] = true
		}
	}
	var root func(e ast.Expr) types.Object
	root = func(e ast.Expr) types.Object {
		switch x := ast.Unparen(e).(type) {
		case *ast.Ident:
			return info.ObjectOf(x)
		case *ast.SelectorExpr:
			if s := info.Selections[x]; s != nil {
				return root(x.X)
			}
		case *ast.IndexExpr:
			return root(x.X)
		case *ast.StarExpr:
			return root(x.X)
		case *ast.SliceExpr:
			return root(x.X)
		case *ast.UnaryExpr:
			return root(x.X)
		}
		return nil
	}
	unknown := false
	ast.Inspect(src.Decl.Body, func(n ast.Node) bool {
		switch x := n.(type) {
		case *ast.AssignStmt:
			for _, l := range x.Lhs {
				if _, isIdent := ast.Unparen(l).(*ast.Ident); isIdent {
					continue // rebinding the parameter itself is local
				}
				if o := root(l); o != nil {
					mark(o)
				}
			}
		case *ast.IncDecStmt:
			if _, isIdent := ast.Unparen(x.X).(*ast.Ident); !isIdent {
				if o := root(x.X); o != nil {
					mark(o)
				}
			}
		case *ast.CallExpr:
			if tv, ok := info.Types[x.Fun]; ok && tv.IsType() {
				return true
			}
			if id, ok := ast.Unparen(x.Fun).(*ast.Ident); ok {
				if b, ok := info.ObjectOf(id).(*types.Builtin); ok {
					switch b.Name() {
					case "copy", "delete", "clear":
						if o := root(x.Args[0]); o != nil {
							mark(o)
						}
					case "append":
						// append may write into spare capacity of its first argument: treated as local
					}
					return true
				}
			}
			callee, _ := typeutil.Callee(info, x).(*types.Func)
			if callee == nil {
				unknown = true
				return true
			}
			sub := f.calleeMutates(callee, depth+1, seen)
			if sel, ok := ast.Unparen(x.Fun).(*ast.SelectorExpr); ok {
				if s := info.Selections[sel]; s != nil && s.Kind() == types.MethodVal && (sub.recv || sub.all) {
					if csig := callee.Type().(*types.Signature); csig.Recv() != nil {
						_, ptrRecv := csig.Recv().Type().Underlying().(*types.Pointer)
						_, ifcRecv := csig.Recv().Type().Underlying().(*types.Interface)
						if ptrRecv || ifcRecv {
							if o := root(sel.X); o != nil {
								mark(o)
							}
						}
					}
				}
			}
			for i, a := range x.Args {
				hit := sub.all
				if !hit && i < len(sub.params) {
					hit = sub.params[i]
				}
				if !hit && len(sub.params) > 0 && i >= len(sub.params) {
					hit = sub.params[len(sub.params)-1]
				}
				if hit {
					if o := root(a); o != nil {
						mark(o)
					}
				}
			}
		case *ast.GoStmt, *ast.FuncLit:
			unknown = true
		}
		return true
	})
	if unknown {
		return mutInfo{all: true}
	}
	return mi
}
