package main

import (
	"fmt"
	"regexp"
	"sort"
	"strings"
)

// abstractor maps the solver's abstract model elements of uninterpreted sorts (BA32!val!3,
// Str!val!0, ...) to declared constants usable in a fresh query, and to distinct concrete Go values.
type abstractor struct {
	zero   map[string]string // model value -> canonical zero constant (BA32.zero, str_empty, ...)
	consts map[string]string // model token -> declared constant name
	sortOf map[string]string // constant name -> sort
	byLit  map[string]string // concrete encoding ("BA32:0100..." / "Str:s3") -> constant name
	order  []string
}

var absTokRe = regexp.MustCompile(`([A-Za-z_][A-Za-z0-9_]*)!val!(\d+)`)

func newAbstractor(model map[string]string) *abstractor {
	a := &abstractor{zero: map[string]string{}, consts: map[string]string{}, sortOf: map[string]string{}, byLit: map[string]string{}}
	for k, v := range model {
		if strings.HasSuffix(k, ".zero") || k == "str_empty" || k == "err_nil" || k == "ifc_nil" {
			a.zero[strings.TrimSpace(v)] = k
		}
	}
	return a
}

// rewrite replaces abstract model tokens by declared constants (or the zero constants).
func (a *abstractor) rewrite(v string) string {
	return absTokRe.ReplaceAllStringFunc(v, func(tok string) string {
		if z, ok := a.zero[tok]; ok {
			return z
		}
		if c, ok := a.consts[tok]; ok {
			return c
		}
		m := absTokRe.FindStringSubmatch(tok)
		name := fmt.Sprintf("mv_%s_%s", m[1], m[2])
		a.consts[tok] = name
		a.sortOf[name] = m[1]
		a.order = append(a.order, name)
		return name
	})
}

// tokenIndex returns (sort, k) for an abstract model token, ok=false otherwise.
func tokenIndex(v string) (string, int, bool) {
	m := absTokRe.FindStringSubmatch(strings.TrimSpace(v))
	if m == nil || m[0] != strings.TrimSpace(v) {
		return "", 0, false
	}
	k := 0
	fmt.Sscan(m[2], &k)
	return m[1], k, true
}

// fresh declares a new constant of the given sort (for concrete outputs not matching any input).
func (a *abstractor) fresh(sort string) string {
	name := fmt.Sprintf("mv_%s_out%d", sanitize(sort), len(a.order))
	a.sortOf[name] = sort
	a.order = append(a.order, name)
	return name
}

// decls returns declarations and distinctness facts for all abstract constants.
func (a *abstractor) decls() (decls []string, facts []string) {
	bySort := map[string][]string{}
	for _, n := range a.order {
		decls = append(decls, fmt.Sprintf("(declare-const %s %s)", n, a.sortOf[n]))
		bySort[a.sortOf[n]] = append(bySort[a.sortOf[n]], n)
	}
	var sorts []string
	for s := range bySort {
		sorts = append(sorts, s)
	}
	sort.Strings(sorts)
	for _, s := range sorts {
		all := bySort[s]
		switch {
		case strings.HasPrefix(s, "BA"):
			all = append([]string{s + ".zero"}, all...)
		case s == "Str":
			all = append([]string{"str_empty"}, all...)
		case s == "Err":
			all = append([]string{"err_nil"}, all...)
		case s == "Ifc":
			all = append([]string{"ifc_nil"}, all...)
		}
		if len(all) > 1 {
			facts = append(facts, "(distinct "+strings.Join(all, " ")+")")
		}
	}
	return decls, facts
}

// baLiteralBytes gives the first bytes of the distinct concrete value chosen for abstract element k.
func baLiteralBytes(k int) []byte {
	k++ // never the all-zero array
	return []byte{byte(k), byte(k >> 8), byte(k >> 16), 0x5a}
}

// concreteToConst maps a concrete output printed by the replay test ("ba32:<hex>", "str:<quoted>")
// back to a constant: the input it equals, the zero constant, or a fresh distinct constant.
func (a *abstractor) concreteToConst(tok string) string {
	if c, ok := a.byLit[tok]; ok {
		return c
	}
	switch {
	case strings.HasPrefix(tok, "ba"):
		k := strings.Index(tok, ":")
		n := tok[2:k]
		hex := tok[k+1:]
		if strings.Trim(hex, "0") == "" {
			return "BA" + n + ".zero"
		}
		c := a.fresh("BA" + n)
		a.byLit[tok] = c
		return c
	case strings.HasPrefix(tok, "str:"):
		if tok == "str:" {
			return "str_empty"
		}
		c := a.fresh("Str")
		a.byLit[tok] = c
		return c
	}
	return tok
}

// expandLets inlines the (let ((x v) ...) body) sharing that solvers print in model values.
func expandLets(s string) string {
	s = strings.TrimSpace(s)
	args := splitSexpArgs(s)
	if len(args) == 0 {
		return s
	}
	if args[0] == "let" && len(args) == 3 {
		body := expandLets(args[2])
		binds := splitSexpArgs("(b " + strings.TrimSuffix(strings.TrimPrefix(strings.TrimSpace(args[1]), "("), ")") + ")")
		for i := len(binds) - 1; i >= 1; i-- {
			kv := splitSexpArgs(binds[i])
			if len(kv) != 2 {
				continue
			}
			val := expandLets(kv[1])
			re := regexp.MustCompile(`(^|[\s()])` + regexp.QuoteMeta(kv[0]) + `($|[\s()])`)
			for re.MatchString(body) {
				body = re.ReplaceAllString(body, "${1}"+strings.ReplaceAll(val, "$", "$$")+"${2}")
			}
		}
		return body
	}
	// expand inside sub-terms
	for i, a := range args {
		if strings.HasPrefix(a, "(") {
			args[i] = expandLets(a)
		}
	}
	return "(" + strings.Join(args, " ") + ")"
}

var concTokRe = regexp.MustCompile(`ba\d+:[0-9a-f]*|str:[0-9a-f]*`)

func (a *abstractor) rewriteConcrete(v string) string {
	return concTokRe.ReplaceAllStringFunc(v, a.concreteToConst)
}
