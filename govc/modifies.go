package main

import (
	"fmt"
	"go/types"
)

// modPaths groups the `modifies` clauses of a contract by root parameter. An empty path list for a
// root means the whole pointee may change; otherwise only the listed field paths may.
func modPaths(ct *Contract) map[string][][]string {
	out := map[string][][]string{}
	for _, m := range ct.Modifies {
		root := specRoot(m)
		if root == "" {
			continue
		}
		var path []string
		ok := true
		var walk func(e SExpr)
		walk = func(e SExpr) {
			switch x := e.(type) {
			case *SIdent:
			case *SSel:
				walk(x.X)
				path = append(path, x.Name)
			default:
				ok = false // index expressions etc.: the whole enclosing field
			}
		}
		walk(m)
		cur, seen := out[root]
		if !ok || len(path) == 0 {
			out[root] = [][]string{} // whole pointee
			continue
		}
		if seen && len(cur) == 0 {
			continue
		}
		out[root] = append(cur, path)
	}
	return out
}

func (f *Frame) getPath(st *State, v Val, path []string) Val {
	for _, p := range path {
		if _, ok := v.Ty.Underlying().(*types.Pointer); ok {
			v = f.deref(st, v, nil)
		}
		v = f.fieldOf(v, p, nil)
	}
	return v
}

// setPath returns v with the field at path replaced.
func (f *Frame) setPath(st *State, v Val, path []string, nv Val) Val {
	if len(path) == 0 {
		return nv
	}
	if _, ok := v.Ty.Underlying().(*types.Pointer); ok {
		inner := f.deref(st, v, nil)
		ni := f.setPath(st, inner, path, nv)
		so := f.c.sorts.SortOf(v.Ty)
		return Val{T: fmt.Sprintf("(mk_%s (%s.nil %s) %s)", so, so, v.T, ni.T), Ty: v.Ty}
	}
	if len(path) == 1 {
		return f.withField(v, path[0], nv, nil)
	}
	inner := f.fieldOf(v, path[0], nil)
	return f.withField(v, path[0], f.setPath(st, inner, path[1:], nv), nil)
}

// havocPaths returns old with every listed path replaced by an arbitrary value (everything else kept).
func (f *Frame) havocPaths(st *State, old Val, paths [][]string) Val {
	cur := old
	for _, p := range paths {
		fv := f.getPath(st, old, p)
		cur = f.setPath(st, cur, p, f.havoc(st, "mod_"+p[len(p)-1], fv.Ty))
	}
	return f.name("mod", cur)
}

// maskPaths returns cur with every listed path reset to its value in old: if the result equals old,
// nothing outside the listed paths changed.
func (f *Frame) maskPaths(st *State, cur, old Val, paths [][]string) Val {
	out := cur
	for _, p := range paths {
		out = f.setPath(st, out, p, f.getPath(st, old, p))
	}
	return out
}
