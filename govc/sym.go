package main

import (
	"fmt"
	"go/ast"
	"go/token"
	"go/types"
	"sort"
	"strings"
)

// Val is a symbolic value: an SMT term plus the Go type it stands for.
// Ty == nil means a spec-level mathematical value (Int or Bool according to IsBool).
type Val struct {
	T      string
	Ty     types.Type
	IsBool bool
	Refs   []refAlt // for pointer values: the variables/fields this pointer may alias (see refs.go)
}

type Obligation struct {
	Name    string
	Kind    string // ensures, panic, call, loop, assert, frame, lemma, vacuity...
	Decls   int    // number of ctx.decls visible
	PC      []string
	Goal    string // must be implied by PC
	Pos     string
	Src     string // human-readable clause
	Inputs  []InputVar
	Outputs []InputVar // result/out-state variables (for replay evaluation)
	Ctx     *Ctx
	Expect  string // "unsat" normally; "sat" for vacuity covers
	Clause  *Clause
	Extra   []string // extra assumptions of one case of a case split (see splitDischarge)
	NoQAxioms bool   // leave the quantified spec-function axioms out (a proof without them is still a proof)
	NoFAxioms bool   // leave the function axioms of pure functions out (likewise)
	Focus     bool   // keep only the path-condition conjuncts over the goal's own leaf symbols (smt.go)
	Full      bool   // keep every collected range fact (no cone-of-influence pruning, see smt.go)
}

type loopPC struct {
	ord int
	pc  []string
}

type InputVar struct {
	Name string // spec-level name (param name)
	Term string // SMT constant
	Type types.Type
}

type unsupported struct{ msg string }

// Ctx holds what is shared by all frames while verifying one function instance.
type Ctx struct {
	w        *World
	specs    *Specs
	sorts    *Sorts
	decls    []string
	nameN    int
	obls     []*Obligation
	fnName   string
	counters map[string]int
	notes    map[string]bool // assumptions / abstractions encountered
	inlined  map[string]bool
	dropped  map[string]bool
	assumedContracts map[string]bool
	ufSig    map[string]string
	inputs   []InputVar
	contract *Contract
	globals  map[types.Object]string
	mode     string
	strLits     map[string]string
	strLitOrder []string
	strLitVals  []string
	globalOrder []*types.Var
	rawSorts    map[types.Object]string
	qN          int
	axioms      []string
	qaxioms     []string // quantified definitional axioms of spec functions (can be left out of a query)
	faxioms     []string // function axioms of pure functions with postconditions (can be left out of a query)
	prePC       []string
	preDecls    int
	exitCount   int
	exitPCs     [][]string
	loopPCs     []loopPC // path condition at the start of the body of each loop that has a loop contract
	fnSrc       *FuncSrc
	tsubst      map[*types.TypeParam]types.Type
	ghSorts     map[string]string // ghost variables with a raw SMT sort (e.g. the big-int heap)
	usesBig     bool
	rangeSeen   map[string]bool
	dIndex      *declIndex
	simp        *simpState
	tracked     map[string]bool // callee names counted by calls(Name) in this function's contract
	pureAxDone  map[string]bool // pure functions whose postconditions were added as a function axiom
}

func newCtx(w *World, specs *Specs, fnName string) *Ctx {
	return &Ctx{w: w, specs: specs, sorts: newSorts(), fnName: fnName, counters: map[string]int{}, notes: map[string]bool{}, inlined: map[string]bool{}, dropped: map[string]bool{}, assumedContracts: map[string]bool{}, ufSig: map[string]string{}, globals: map[types.Object]string{}, strLits: map[string]string{}, rawSorts: map[types.Object]string{}, ghSorts: map[string]string{}, rangeSeen: map[string]bool{}}
}

func (c *Ctx) fresh(prefix, sort string) string {
	c.nameN++
	n := fmt.Sprintf("%s!%d", sanitize(prefix), c.nameN)
	c.decls = append(c.decls, fmt.Sprintf("(declare-const %s %s)", n, sort))
	return n
}

func (c *Ctx) define(prefix, sort, term string) string {
	c.nameN++
	n := fmt.Sprintf("%s!%d", sanitize(prefix), c.nameN)
	if c.contract != nil && c.contract.Fieldwise {
		term = c.simplifyTerm(term)
		c.recordDef(n, term)
	}
	c.decls = append(c.decls, fmt.Sprintf("(define-fun %s () %s %s)", n, sort, term))
	return n
}

func (c *Ctx) note(s string) { c.notes[s] = true }

// uf declares (once) an uninterpreted function and returns its SMT name.
func (c *Ctx) uf(name string, argSorts []string, ret string) string {
	n := sanitize(name)
	sig := "(" + strings.Join(argSorts, " ") + ") " + ret
	for k := 0; ; k++ {
		cand := n
		if k > 0 {
			cand = fmt.Sprintf("%s_o%d", n, k)
		}
		if old, ok := c.ufSig[cand]; ok {
			if old == sig {
				return cand
			}
			continue
		}
		c.ufSig[cand] = sig
		c.decls = append(c.decls, fmt.Sprintf("(declare-fun %s %s)", cand, sig))
		return cand
	}
}

// State is one symbolic program state (a merged set of paths).
type State struct {
	env map[types.Object]Val
	pc  []string
	gh  map[string]Val // ghost variables
}

func (s *State) fork() *State {
	n := &State{env: make(map[types.Object]Val, len(s.env)), pc: append([]string(nil), s.pc...), gh: map[string]Val{}}
	for k, v := range s.env {
		n.env[k] = v
	}
	for k, v := range s.gh {
		n.gh[k] = v
	}
	return n
}

func (s *State) assume(t string) {
	if t == "true" {
		return
	}
	s.pc = append(s.pc, t)
}

type Exit struct {
	st      *State
	results []Val
	pos     token.Pos
}

type breakCtx struct {
	label     string
	isLoop    bool
	breaks    []*State
	continues []*State
}

// Frame is the execution of one function body (the verified one, or an inlined callee).
type Frame struct {
	c        *Ctx
	fn       *FuncSrc
	info     *types.Info
	tsubst   map[*types.TypeParam]types.Type
	exits    []*Exit
	loopOrd  int
	depth    int
	contract *Contract
	brk      []*breakCtx
	resultObjs []*types.Var
	defers   []*ast.DeferStmt
	labelFor map[ast.Stmt]string
	entry    *State
	top      bool
	specEnvExtra map[string]Val
	parent   *Frame
	entryEnv *SpecEnv
}

func (f *Frame) unsupported(n ast.Node, format string, a ...any) {
	pos := ""
	if n != nil {
		pos = f.c.w.Fset.Position(n.Pos()).String()
	}
	panic(unsupported{fmt.Sprintf("%s: %s", pos, fmt.Sprintf(format, a...))})
}

// typ applies the frame's type-parameter substitution.
func (f *Frame) typ(t types.Type) types.Type {
	if t == nil || len(f.tsubst) == 0 {
		return t
	}
	return substType(t, f.tsubst)
}

func substType(t types.Type, m map[*types.TypeParam]types.Type) types.Type {
	switch u := t.(type) {
	case *types.TypeParam:
		if r, ok := m[u]; ok {
			return r
		}
		// match by name (type params of generic methods/instantiations can be distinct objects)
		for k, r := range m {
			if k.Obj().Name() == u.Obj().Name() && k.Obj().Pos() == u.Obj().Pos() {
				return r
			}
		}
		return t
	case *types.Pointer:
		e := substType(u.Elem(), m)
		if e != u.Elem() {
			return types.NewPointer(e)
		}
	case *types.Slice:
		e := substType(u.Elem(), m)
		if e != u.Elem() {
			return types.NewSlice(e)
		}
	case *types.Array:
		e := substType(u.Elem(), m)
		if e != u.Elem() {
			return types.NewArray(e, u.Len())
		}
	case *types.Map:
		k, e := substType(u.Key(), m), substType(u.Elem(), m)
		if k != u.Key() || e != u.Elem() {
			return types.NewMap(k, e)
		}
	case *types.Named:
		if ta := u.TypeArgs(); ta != nil && ta.Len() > 0 {
			changed := false
			var args []types.Type
			for i := 0; i < ta.Len(); i++ {
				a := substType(ta.At(i), m)
				if a != ta.At(i) {
					changed = true
				}
				args = append(args, a)
			}
			if changed {
				if inst, err := types.Instantiate(nil, u.Origin(), args, false); err == nil {
					return inst
				}
			}
		}
	case *types.Tuple:
		var vs []*types.Var
		changed := false
		for i := 0; i < u.Len(); i++ {
			v := u.At(i)
			nt := substType(v.Type(), m)
			if nt != v.Type() {
				changed = true
			}
			vs = append(vs, types.NewVar(v.Pos(), v.Pkg(), v.Name(), nt))
		}
		if changed {
			return types.NewTuple(vs...)
		}
	}
	return t
}

func (f *Frame) sortOf(t types.Type) string { return f.c.sorts.SortOf(f.typ(t)) }

func (f *Frame) typeOf(e ast.Expr) types.Type {
	tv, ok := f.info.Types[e]
	if !ok {
		if id, ok := e.(*ast.Ident); ok {
			if o := f.info.ObjectOf(id); o != nil {
				return f.typ(o.Type())
			}
		}
		f.unsupported(e, "no type for expression")
	}
	return f.typ(tv.Type)
}

// havoc creates an unconstrained value of type t (with its type invariant assumed in st).
func (f *Frame) havoc(st *State, prefix string, t types.Type) Val {
	t = f.typ(t)
	n := f.c.fresh(prefix, f.c.sorts.SortOf(t))
	for _, inv := range f.c.sorts.TypeInv(n, t, 0) {
		st.assume(inv)
	}
	return Val{T: n, Ty: t}
}

func (f *Frame) zero(t types.Type) Val {
	t = f.typ(t)
	return Val{T: f.c.sorts.Zero(t), Ty: t}
}

// name gives a long term a short SMT name.
func (f *Frame) name(prefix string, v Val) Val {
	if len(v.T) < 48 {
		return v
	}
	var sort string
	if v.Ty == nil {
		sort = "Int"
		if v.IsBool {
			sort = "Bool"
		}
	} else {
		sort = f.c.sorts.SortOf(v.Ty)
	}
	v.T = f.c.define(prefix, sort, v.T)
	return v
}

func (f *Frame) oblige(st *State, kind, anchor, goal string, pos token.Pos, src string) *Obligation {
	if goal == "true" {
		return nil
	}
	if f.c.contract != nil && f.c.contract.Glue && (kind == "panic" || kind == "call") {
		// glue contract: only assertions, postconditions and frames are proved; absence of panics and
		// callee preconditions inside this function are assumed (stated in evidence)
		f.c.note(fmt.Sprintf("glue contract %s: no-panic and callee-precondition obligations inside it are assumed, not proved", f.c.fnName))
		return nil
	}
	name := fmt.Sprintf("%s#%s:%s", f.c.fnName, kind, anchor)
	o := &Obligation{Name: name, Kind: kind, Decls: len(f.c.decls), PC: append([]string(nil), st.pc...), Goal: goal, Src: src, Ctx: f.c, Expect: "unsat"}
	if pos.IsValid() {
		p := f.c.w.Fset.Position(pos)
		o.Pos = fmt.Sprintf("%s:%d", strings.TrimPrefix(p.Filename, f.c.w.Repo+"/"), p.Line)
	}
	f.c.obls = append(f.c.obls, o)
	return o
}

// panicSite registers a no-panic obligation and then assumes the safe condition.
func (f *Frame) panicSite(st *State, kind string, safe string, pos token.Pos) {
	if safe == "true" {
		return
	}
	prefix := ""
	if !f.top {
		prefix = f.fn.Obj.Name() + "."
	}
	key := prefix + kind
	k := f.c.counters["panic:"+key]
	f.c.counters["panic:"+key] = k + 1
	anchor := fmt.Sprintf("%s@%d", key, k)
	if f.c.contract != nil {
		if reason, ok := f.c.contract.AllowPanic[anchor]; ok {
			f.c.note(fmt.Sprintf("allowed panic %s in %s: %s", anchor, f.c.fnName, reason))
			st.assume(safe)
			return
		}
	}
	f.oblige(st, "panic", anchor, safe, pos, fmt.Sprintf("no %s panic", kind))
	st.assume(safe)
}

// ---------- merging ----------

func commonPrefix(a, b []string) int {
	n := 0
	for n < len(a) && n < len(b) && a[n] == b[n] {
		n++
	}
	return n
}

func conj(ts []string) string {
	var out []string
	for _, t := range ts {
		if t == "true" {
			continue
		}
		if t == "false" {
			return "false"
		}
		out = append(out, t)
	}
	switch len(out) {
	case 0:
		return "true"
	case 1:
		return out[0]
	}
	return "(and " + strings.Join(out, " ") + ")"
}

func disj(ts []string) string {
	var out []string
	for _, t := range ts {
		if t == "false" {
			continue
		}
		if t == "true" {
			return "true"
		}
		out = append(out, t)
	}
	switch len(out) {
	case 0:
		return "false"
	case 1:
		return out[0]
	}
	return "(or " + strings.Join(out, " ") + ")"
}

func not(t string) string {
	switch t {
	case "true":
		return "false"
	case "false":
		return "true"
	}
	if strings.HasPrefix(t, "(not ") && strings.HasSuffix(t, ")") && balanced(t[5:len(t)-1]) {
		return t[5 : len(t)-1]
	}
	return "(not " + t + ")"
}

func balanced(s string) bool {
	d := 0
	for i := 0; i < len(s); i++ {
		switch s[i] {
		case '(':
			d++
		case ')':
			d--
			if d < 0 {
				return false
			}
		case ' ':
			if d == 0 {
				return false
			}
		}
	}
	return d == 0
}

func implies(a, b string) string {
	if a == "true" {
		return b
	}
	if b == "true" {
		return "true"
	}
	return "(=> " + a + " " + b + ")"
}

func ite(c, a, b string) string {
	if a == b {
		return a
	}
	switch c {
	case "true":
		return a
	case "false":
		return b
	}
	return "(ite " + c + " " + a + " " + b + ")"
}

// mergeStates joins several states into one. Variables that differ become ite-terms over the
// states' path-condition deltas.
func (f *Frame) mergeStates(states []*State) *State {
	var live []*State
	for _, s := range states {
		if s != nil {
			live = append(live, s)
		}
	}
	if len(live) == 0 {
		return nil
	}
	if len(live) == 1 {
		return live[0]
	}
	cp := len(live[0].pc)
	for _, s := range live[1:] {
		if k := commonPrefix(live[0].pc, s.pc); k < cp {
			cp = k
		}
	}
	out := &State{env: map[types.Object]Val{}, pc: append([]string(nil), live[0].pc[:cp]...), gh: map[string]Val{}}
	deltas := make([]string, len(live))
	for i, s := range live {
		deltas[i] = conj(s.pc[cp:])
		if len(deltas[i]) > 60 {
			deltas[i] = f.c.define("pcd", "Bool", deltas[i])
		}
	}
	out.pc = append(out.pc, disj(deltas))
	// deterministic order of objects
	objs := map[types.Object]bool{}
	for _, s := range live {
		for o := range s.env {
			objs[o] = true
		}
	}
	var ol []types.Object
	for o := range objs {
		ol = append(ol, o)
	}
	sort.Slice(ol, func(i, j int) bool {
		if ol[i].Pos() != ol[j].Pos() {
			return ol[i].Pos() < ol[j].Pos()
		}
		return ol[i].Name() < ol[j].Name()
	})
	for _, o := range ol {
		var first *Val
		same := true
		inAll := true
		for _, s := range live {
			v, ok := s.env[o]
			if !ok {
				inAll = false
				break
			}
			if first == nil {
				vv := v
				first = &vv
			} else if v.T != first.T {
				same = false
			}
		}
		if !inAll {
			continue // variable local to one branch: out of scope after the join
		}
		if same {
			out.env[o] = *first
			continue
		}
		var t string
		if f.c.contract != nil && f.c.contract.Fieldwise {
			alts := make([]string, len(live))
			for i := range live {
				alts[i] = live[i].env[o].T
			}
			t = f.c.mergeTerms(deltas, alts)
		} else {
			t = live[len(live)-1].env[o].T
			for i := len(live) - 2; i >= 0; i-- {
				t = ite(deltas[i], live[i].env[o].T, t)
			}
		}
		v := Val{T: t, Ty: first.Ty, IsBool: first.IsBool}
		// aliasing alternatives of pointer values survive the join, guarded by their branch
		for i, s := range live {
			for _, alt := range s.env[o].Refs {
				v.Refs = append(v.Refs, refAlt{Cond: conj([]string{deltas[i], alt.Cond}), Root: alt.Root, Fields: alt.Fields})
			}
		}
		nv := f.name(o.Name(), v)
		nv.Refs = v.Refs
		out.env[o] = nv
	}
	ghs := map[string]bool{}
	for _, s := range live {
		for k := range s.gh {
			ghs[k] = true
		}
	}
	for k := range ghs {
		first := live[0].gh[k]
		same := true
		for _, s := range live {
			if s.gh[k].T != first.T {
				same = false
			}
		}
		if same {
			out.gh[k] = first
			continue
		}
		t := live[len(live)-1].gh[k].T
		for i := len(live) - 2; i >= 0; i-- {
			t = ite(deltas[i], live[i].gh[k].T, t)
		}
		if gs, ok := f.c.ghSorts[k]; ok {
			out.gh[k] = Val{T: f.c.define("gh_"+k, gs, t)}
			continue
		}
		out.gh[k] = f.name("gh_"+k, Val{T: t, Ty: first.Ty, IsBool: first.IsBool})
	}
	return out
}

// mergeExits joins the exits of an inlined call into one state plus merged result values.
func (f *Frame) mergeExits(exits []*Exit, resTypes []types.Type) (*State, []Val) {
	if len(exits) == 0 {
		return nil, nil
	}
	if len(exits) == 1 {
		return exits[0].st, exits[0].results
	}
	// stash results as pseudo-variables so that mergeStates merges them too
	var objs []*types.Var
	for i, t := range resTypes {
		objs = append(objs, types.NewVar(token.Pos(1<<30+i), nil, fmt.Sprintf("ret%d", i), t))
	}
	var sts []*State
	for _, e := range exits {
		for i, o := range objs {
			e.st.env[o] = e.results[i]
		}
		sts = append(sts, e.st)
	}
	m := f.mergeStates(sts)
	var res []Val
	for _, o := range objs {
		res = append(res, m.env[o])
		delete(m.env, o)
	}
	return m, res
}

// instType applies the verified instance's type-parameter substitution.
func (c *Ctx) instType(t types.Type) types.Type {
	if len(c.tsubst) == 0 {
		return t
	}
	return substType(t, c.tsubst)
}
