package main

import (
	"fmt"
	"go/ast"
	"go/token"
	"go/types"
	"sort"
	"strings"

	"golang.org/x/tools/go/types/typeutil"
)

func (f *Frame) isPanicCall(call *ast.CallExpr) bool {
	if id, ok := call.Fun.(*ast.Ident); ok {
		if b, ok := f.info.ObjectOf(id).(*types.Builtin); ok && b.Name() == "panic" {
			return true
		}
	}
	return false
}

var neverReturn = map[string]bool{
	"Panicf": true, "Panic": true, "Panicln": true, "Fatalf": true, "Fatal": true, "Fatalln": true,
}

// callNeverReturns: logging.Panicf-style calls end the path.
func (f *Frame) callNeverReturns(call *ast.CallExpr) bool {
	if sel, ok := call.Fun.(*ast.SelectorExpr); ok {
		if neverReturn[sel.Sel.Name] {
			return true
		}
	}
	return false
}

func (f *Frame) doPanic(st *State, call *ast.CallExpr) {
	for _, a := range call.Args {
		func() {
			defer func() {
				if r := recover(); r != nil {
					if _, ok := r.(unsupported); !ok {
						panic(r)
					}
				}
			}()
			f.eval(st, a)
		}()
	}
	f.panicSite(st, "explicit", "false", call.Pos())
}

// evalCall evaluates a call and keeps the call-count ghost variables (`calls(F)` in contracts): a call
// whose static callee is named F adds exactly one to calls(F).
func (f *Frame) evalCall(st *State, call *ast.CallExpr) []Val {
	var key string
	var before Val
	if len(f.c.tracked) > 0 {
		if fn, _ := typeutil.Callee(f.info, call).(*types.Func); fn != nil && f.c.tracked[fn.Name()] {
			key = callsKey(fn.Name())
		}
	}
	rs := f.evalCall1(st, call, &before, key)
	if key != "" && before.T != "" {
		st.gh[key] = Val{T: f.c.define("calls", "Int", fmt.Sprintf("(+ %s 1)", before.T))}
	}
	return rs
}

func callsKey(name string) string { return "calls:" + name }

// havocCalls: a callee that is neither inlined nor pure may itself make calls that are being counted;
// every counter becomes an arbitrary value not below its current one (the callee's postconditions may
// then say more).
func (f *Frame) havocCalls(st *State) {
	for name := range f.c.tracked {
		k := callsKey(name)
		old, ok := st.gh[k]
		if !ok {
			continue
		}
		n := f.c.fresh("calls_"+name, "Int")
		st.gh[k] = Val{T: n}
		st.assume(fmt.Sprintf("(>= %s %s)", n, old.T))
	}
}

// havocCallsOf: like havocCalls, but a counter stays exact when the callee provably cannot reach a
// function of the counted name: its source is loaded and neither it nor anything it statically calls
// (transitively, within the loaded sources) calls a function of that name, makes an interface-method
// or function-value call (unknown target), or starts a goroutine. Callees without loaded source
// (standard library, other modules) cannot name this module's functions; they only reach them through
// callbacks, which are function-value calls made by *their* callers' arguments -- a function literal or
// method value passed as an argument makes the result conservative again.
func (f *Frame) havocCallsOf(st *State, fn *types.Func) {
	for name := range f.c.tracked {
		if fn != nil && !f.mayReach(fn, name, map[*types.Func]bool{}) {
			continue
		}
		k := callsKey(name)
		old, ok := st.gh[k]
		if !ok {
			continue
		}
		n := f.c.fresh("calls_"+name, "Int")
		st.gh[k] = Val{T: n}
		st.assume(fmt.Sprintf("(>= %s %s)", n, old.T))
	}
}

func (f *Frame) mayReach(fn *types.Func, name string, seen map[*types.Func]bool) bool {
	fn = fn.Origin()
	if seen[fn] {
		return false
	}
	seen[fn] = true
	if len(seen) > 400 {
		return true
	}
	src := f.c.w.funcs[fn]
	if src == nil || src.Decl.Body == nil {
		// no source: an interface method (unknown implementation) may reach anything; a function outside
		// the loaded sources cannot name the counted function
		if sig, ok := fn.Type().(*types.Signature); ok && sig.Recv() != nil {
			if _, isIfc := sig.Recv().Type().Underlying().(*types.Interface); isIfc {
				return true
			}
		}
		return false
	}
	info := src.Pkg.TypesInfo
	reach := false
	ast.Inspect(src.Decl.Body, func(n ast.Node) bool {
		if reach {
			return false
		}
		switch x := n.(type) {
		case *ast.GoStmt:
			reach = true
		case *ast.FuncLit:
			reach = true // a closure may be handed to code that calls it
		case *ast.CallExpr:
			if tv, ok := info.Types[x.Fun]; ok && tv.IsType() {
				return true
			}
			if id, ok := ast.Unparen(x.Fun).(*ast.Ident); ok {
				if _, isB := info.ObjectOf(id).(*types.Builtin); isB {
					return true
				}
			}
			callee, _ := typeutil.Callee(info, x).(*types.Func)
			if callee == nil {
				reach = true // call through a function value
				return false
			}
			if callee.Name() == name {
				reach = true
				return false
			}
			if k := funcKey(callee); isLoggingCall(k) || isMutexCall(k) {
				return true // logging and mutex calls are dropped by the model: they reach nothing
			}
			if f.mayReach(callee, name, seen) {
				reach = true
				return false
			}
		}
		return true
	})
	return reach
}

func (f *Frame) evalCall1(st *State, call *ast.CallExpr, before *Val, countKey string) []Val {
	// conversion
	if tv, ok := f.info.Types[call.Fun]; ok && tv.IsType() {
		v := f.eval(st, call.Args[0])
		return []Val{f.convert(st, v, tv.Type, call.Pos())}
	}
	// builtin
	if id, ok := ast.Unparen(call.Fun).(*ast.Ident); ok {
		if b, ok := f.info.ObjectOf(id).(*types.Builtin); ok {
			return f.evalBuiltin(st, call, b.Name())
		}
	}
	if f.callNeverReturns(call) {
		// logging.Panicf(...): explicit panic site
		f.panicSite(st, "explicit", "false", call.Pos())
		st.assume("false")
		return f.havocResults(st, call)
	}
	callee := typeutil.Callee(f.info, call)
	fn, _ := callee.(*types.Func)
	if fn == nil {
		// call of a function value / closure
		return f.callUnknown(st, call, nil, "call through a function value")
	}
	if countKey != "" {
		// nested calls in the arguments are counted when the arguments are evaluated by the paths below;
		// argument expressions of counted callees are required to be call-free so that this snapshot is exact
		ast.Inspect(call, func(n ast.Node) bool {
			if c, ok := n.(*ast.CallExpr); ok && c != call {
				if fn2, _ := typeutil.Callee(f.info, c).(*types.Func); fn2 != nil && f.c.tracked[fn2.Name()] {
					f.unsupported(call, "counted call nested in the arguments of a counted call")
				}
			}
			return true
		})
		*before = st.gh[countKey]
	}
	key := funcKey(fn)
	// receiver
	var recvExpr ast.Expr
	if sel, ok := ast.Unparen(call.Fun).(*ast.SelectorExpr); ok {
		if s := f.info.Selections[sel]; s != nil && s.Kind() == types.MethodVal {
			recvExpr = sel.X
		}
	}
	if h, ok := stdHandlers[key]; ok {
		return h(f, st, call, recvExpr)
	}
	if h, ok := stdHandlersExtra[key]; ok {
		return h(f, st, call, recvExpr)
	}
	if key == "math/big.NewInt" {
		v := f.eval(st, call.Args[0])
		return []Val{f.bigAlloc(st, v.T)}
	}
	if isLoggingCall(key) || isMutexCall(key) {
		// logging and mutex operations have no effect on the tracked (sequential) state
		f.c.dropped[key] = true
		return f.havocResults(st, call)
	}
	if f.top && f.contract != nil {
		for _, a := range f.contract.Asserts {
			if a.Anchor == "call:"+fn.Name() {
				f.assertAtCall(st, call, fn, recvExpr, a)
			}
		}
	}
	if f.forcedInline(fn) {
		if src := f.c.w.funcs[fn.Origin()]; src != nil {
			if rs, ok := f.tryInline(st, call, fn, src, recvExpr); ok {
				return rs
			}
			f.unsupported(call, "callee %s listed under `inline` could not be inlined", fn.Name())
		}
	}
	if ct := f.c.specs.Contracts[key]; ct != nil {
		if ct.Pure && len(ct.Ensures) == 0 && len(ct.Requires) == 0 {
			return f.callPure(st, call, fn, recvExpr)
		}
		return f.callByContract(st, call, fn, ct, recvExpr)
	}
	if src := f.c.w.funcs[fn.Origin()]; src != nil && f.inlineable(src) && !f.boxesReference(call, fn) {
		if rs, ok := f.tryInline(st, call, fn, src, recvExpr); ok {
			return rs
		}
	}
	return f.callUnknown(st, call, fn, "")
}

// boxesReference reports whether the call passes a pointer, slice or map where the callee's parameter is an
// interface. Inside an inlined body such a value is an opaque handle, so a method call through the interface
// (protocol.Decode(b, &chunk) -> objptr.UnmarshalMsg(b)) would leave the caller's variable untouched in the
// model although the real call writes it. Such calls are not inlined: as an unknown call they havoc what the
// argument points to.
func (f *Frame) boxesReference(call *ast.CallExpr, fn *types.Func) bool {
	sig, ok := fn.Type().(*types.Signature)
	if !ok {
		return false
	}
	np := sig.Params().Len()
	for i, a := range call.Args {
		var pt types.Type
		switch {
		case i < np-1 || (i < np && !sig.Variadic()):
			pt = sig.Params().At(i).Type()
		case np > 0 && sig.Variadic():
			if sl, ok := sig.Params().At(np - 1).Type().(*types.Slice); ok {
				pt = sl.Elem()
			}
		}
		if pt == nil {
			continue
		}
		if _, isIfc := f.typ(pt).Underlying().(*types.Interface); !isIfc {
			continue
		}
		at := f.typeOf(a)
		if at == nil {
			continue
		}
		switch at.Underlying().(type) {
		case *types.Pointer, *types.Slice, *types.Map:
			return true
		}
	}
	return false
}

// assertAtCall proves a contract's `assert at call:<callee> [label] expr` at this call site. The
// expression may mention the caller's variables in scope and the callee's parameter names (bound to
// the actual arguments).
func (f *Frame) assertAtCall(st *State, call *ast.CallExpr, fn *types.Func, recvExpr ast.Expr, a AssertAt) {
	// evaluate the arguments on a copy, without disturbing obligation numbering
	tmp := st.fork()
	nObl := len(f.c.obls)
	saved := map[string]int{}
	for k, v := range f.c.counters {
		saved[k] = v
	}
	args := f.bindArgs(tmp, call, fn, recvExpr)
	f.c.obls = f.c.obls[:nObl]
	f.c.counters = saved
	env := f.loopSpecEnv(st)
	for _, ba := range args {
		if ba.name != "" && ba.name != "_" {
			if outer, ok := env.names[ba.name]; ok {
				env.names["caller_"+ba.name] = outer // the caller's own variable of that name stays reachable
			}
			env.names[ba.name] = ba.val
		}
	}
	k := f.c.counters["assert:"+a.Clause.Label]
	f.c.counters["assert:"+a.Clause.Label] = k + 1
	func() {
		defer f.specGuard(call, "assert at "+a.Anchor)
		t := f.specBool(st, a.Clause.Expr, env)
		f.oblige(st, "assert", fmt.Sprintf("%s@%s#%d", a.Clause.Label, fn.Name(), k), t, call.Pos(), a.Clause.Src)
		st.assume(t)
	}()
}

// forcedInline: the contract of the function under verification lists this callee under `inline`.
func (f *Frame) forcedInline(fn *types.Func) bool {
	if f.c.contract == nil {
		return false
	}
	for _, n := range f.c.contract.Inline {
		if n == fn.Name() {
			return true
		}
	}
	return false
}

// isMutexCall: Lock/Unlock/RLock/RUnlock of sync and go-deadlock mutexes (also when promoted through an
// embedded field). Concurrency is outside the model; the calls are dropped and listed in evidence.
func isMutexCall(key string) bool {
	for _, p := range []string{"sync.Mutex.", "sync.RWMutex.", "github.com/algorand/go-deadlock.Mutex.", "github.com/algorand/go-deadlock.RWMutex."} {
		if strings.HasPrefix(key, p) {
			switch key[len(p):] {
			case "Lock", "Unlock", "RLock", "RUnlock":
				return true
			}
		}
	}
	return false
}

func isLoggingCall(key string) bool {
	for _, p := range []string{modPath + "/logging.Logger.", modPath + "/logging.", "log.", modPath + "/logging/telemetryspec", modPath + "/util/metrics."} {
		if strings.HasPrefix(key, p) {
			return true
		}
	}
	return false
}

func (f *Frame) havocResults(st *State, call *ast.CallExpr) []Val {
	tv, ok := f.info.Types[call]
	if !ok || tv.Type == nil {
		return nil
	}
	t := f.typ(tv.Type)
	if tup, ok := t.(*types.Tuple); ok {
		var out []Val
		for i := 0; i < tup.Len(); i++ {
			out = append(out, f.havoc(st, "r", tup.At(i).Type()))
		}
		return out
	}
	if b, ok := t.(*types.Basic); ok && b.Kind() == types.Invalid {
		return nil
	}
	return []Val{f.havoc(st, "r", t)}
}

// callUnknown: no contract, not inlineable. Results are arbitrary (or an uninterpreted function of
// the arguments if the callee is declared pure); everything reachable through pointer, slice and
// map arguments and a pointer receiver is havocked.
func (f *Frame) callUnknown(st *State, call *ast.CallExpr, fn *types.Func, why string) []Val {
	name := exprString(call.Fun)
	key := name
	if fn != nil {
		key = funcKey(fn)
	}
	pure := false
	if fn != nil {
		if ct := f.c.specs.Contracts[key]; ct != nil && ct.Pure {
			pure = true
		}
		if pureFuncs[key] {
			pure = true
		}
	}
	var argVals []Val
	var recvVal *Val
	if sel, ok := ast.Unparen(call.Fun).(*ast.SelectorExpr); ok {
		if s := f.info.Selections[sel]; s != nil && s.Kind() == types.MethodVal {
			v := f.eval(st, sel.X)
			recvVal = &v
		}
	}
	for _, a := range call.Args {
		argVals = append(argVals, f.eval(st, a))
	}
	if pure {
		var ts, sorts []string
		if recvVal != nil {
			ts = append(ts, recvVal.T)
			sorts = append(sorts, f.c.sorts.SortOf(recvVal.Ty))
		}
		for _, v := range argVals {
			if v.T == "nil" || v.Ty == nil {
				continue
			}
			ts = append(ts, v.T)
			sorts = append(sorts, f.c.sorts.SortOf(v.Ty))
		}
		tv := f.info.Types[call]
		t := f.typ(tv.Type)
		mk := func(i int, rt types.Type) Val {
			rs := f.c.sorts.SortOf(rt)
			ufn := f.c.uf(fmt.Sprintf("pure_%s_%d", key, i), sorts, rs)
			term := ufn
			if len(ts) > 0 {
				term = "(" + ufn + " " + strings.Join(ts, " ") + ")"
			}
			for _, inv := range f.c.sorts.TypeInv(term, rt, 0) {
				st.assume(inv)
			}
			return Val{T: term, Ty: rt}
		}
		f.c.note("pure (trusted): " + key + " is a function of its arguments only")
		if tup, ok := t.(*types.Tuple); ok {
			var out []Val
			for i := 0; i < tup.Len(); i++ {
				out = append(out, mk(i, f.typ(tup.At(i).Type())))
			}
			return out
		}
		return []Val{mk(0, t)}
	}
	if why == "" {
		why = "no contract"
	}
	f.c.note(fmt.Sprintf("havoc: call to %s (%s): results arbitrary, reachable arguments havocked", key, why))
	f.havocCallsOf(st, fn)
	// havoc mutable arguments
	if recvVal != nil {
		sel := ast.Unparen(call.Fun).(*ast.SelectorExpr)
		f.havocReachable(st, sel.X, *recvVal, fn)
	}
	for i, a := range call.Args {
		f.havocReachable(st, a, argVals[i], nil)
	}
	return f.havocResults(st, call)
}

var pureFuncs = map[string]bool{}

func (f *Frame) havocReachable(st *State, e ast.Expr, v Val, fn *types.Func) {
	if v.Ty == nil || v.T == "nil" {
		return
	}
	mutable := false
	switch v.Ty.Underlying().(type) {
	case *types.Pointer, *types.Slice, *types.Map, *types.Interface:
		mutable = true
	default:
		// addressable value with a pointer-receiver method
		if fn != nil {
			if sig, ok := fn.Type().(*types.Signature); ok && sig.Recv() != nil {
				if _, isPtr := sig.Recv().Type().(*types.Pointer); isPtr {
					mutable = true
				}
			}
		}
	}
	if !mutable {
		return
	}
	if u, ok := ast.Unparen(e).(*ast.UnaryExpr); ok && u.Op == token.AND {
		e = u.X
		if f.isLvalue(e) {
			f.assign(st, e, f.havoc(st, "hv", f.typeOf(e)))
		}
		return
	}
	if f.isLvalue(e) {
		if _, isIfc := v.Ty.Underlying().(*types.Interface); isIfc && !f.statefulIfc(v.Ty) {
			// an interface value is a handle: the handle itself does not change. Only interfaces whose
			// contracts model abstract state behind the handle (some method has `modifies self`) lose
			// what is known about that state when an uncontracted callee may have changed it.
			return
		}
		if _, isSl := v.Ty.Underlying().(*types.Slice); isSl {
			// the callee gets a copy of the slice header: the elements may change, the caller's offset,
			// length and capacity cannot
			so := f.c.sorts.SortOf(v.Ty)
			hv := f.havoc(st, "hv", v.Ty)
			nv := Val{T: fmt.Sprintf("(mk_%s (%s.arr %s) (%s.off %s) (%s.len %s) (%s.cap %s))", so, so, hv.T, so, v.T, so, v.T, so, v.T), Ty: v.Ty}
			f.assign(st, e, f.name("hv", nv))
			return
		}
		f.assign(st, e, f.havoc(st, "hv", v.Ty))
	}
}

// statefulIfc reports whether contracts give the interface type an abstract state (a method of it is
// specified with `modifies self`).
func (f *Frame) statefulIfc(t types.Type) bool {
	n, ok := t.(*types.Named)
	if !ok || n.Obj().Pkg() == nil {
		return false
	}
	prefix := n.Obj().Pkg().Path() + "." + n.Obj().Name() + "."
	for k, ct := range f.c.specs.Contracts {
		if !strings.HasPrefix(k, prefix) {
			continue
		}
		for _, m := range ct.Modifies {
			if specRoot(m) == "self" {
				return true
			}
		}
	}
	return false
}

func (f *Frame) isLvalue(e ast.Expr) bool {
	switch x := ast.Unparen(e).(type) {
	case *ast.Ident:
		if x.Name == "_" {
			return false
		}
		_, ok := f.info.ObjectOf(x).(*types.Var)
		return ok
	case *ast.SelectorExpr:
		if s := f.info.Selections[x]; s != nil && s.Kind() == types.FieldVal {
			return f.isLvalue(x.X)
		}
		return false
	case *ast.IndexExpr:
		return f.isLvalue(x.X)
	case *ast.StarExpr:
		return f.isLvalue(x.X)
	}
	return false
}

func (f *Frame) evalBuiltin(st *State, call *ast.CallExpr, name string) []Val {
	switch name {
	case "len", "cap":
		v := f.eval(st, call.Args[0])
		if _, ok := v.Ty.Underlying().(*types.Pointer); ok {
			v = f.deref(st, v, call)
		}
		it := types.Typ[types.Int]
		switch u := v.Ty.Underlying().(type) {
		case *types.Slice:
			so := f.c.sorts.SortOf(v.Ty)
			return []Val{{T: fmt.Sprintf("(%s.%s %s)", so, name, v.T), Ty: it}}
		case *types.Array:
			return []Val{{T: fmt.Sprint(u.Len()), Ty: it}}
		case *types.Map:
			so := f.c.sorts.SortOf(v.Ty)
			return []Val{{T: fmt.Sprintf("(%s.card %s)", so, v.T), Ty: it}}
		case *types.Basic:
			return []Val{{T: fmt.Sprintf("(gstr_len %s)", v.T), Ty: it}}
		case *types.Chan:
			return []Val{f.havoc(st, "chlen", it)}
		}
		f.unsupported(call, "len of %v", v.Ty)
	case "min", "max":
		a := f.eval(st, call.Args[0])
		t := f.typeOf(call)
		for _, y := range call.Args[1:] {
			b := f.eval(st, y)
			op := "<="
			if name == "max" {
				op = ">="
			}
			a = Val{T: fmt.Sprintf("(ite (%s %s %s) %s %s)", op, a.T, b.T, a.T, b.T), Ty: t}
		}
		a.Ty = t
		return []Val{f.name(name, a)}
	case "append":
		base := f.eval(st, call.Args[0])
		t := f.typeOf(call)
		if base.T == "nil" {
			base = f.zero(t)
		}
		sl := t.Underlying().(*types.Slice)
		so := f.c.sorts.SortOf(t)
		if call.Ellipsis.IsValid() {
			// append(a, b...): result has len(a)+len(b); contents: a's prefix kept, b's copied (quantified fact)
			other := f.eval(st, call.Args[1])
			var olen string
			var oelem func(i string) string
			if isString(other.Ty) {
				olen = fmt.Sprintf("(gstr_len %s)", other.T)
				oelem = func(i string) string { return fmt.Sprintf("(select (gstr_bytes %s) %s)", other.T, i) }
			} else {
				oso := f.c.sorts.SortOf(other.Ty)
				olen = fmt.Sprintf("(%s.len %s)", oso, other.T)
				oelem = func(i string) string {
					return fmt.Sprintf("(select (%s.arr %s) (+ (%s.off %s) %s))", oso, other.T, oso, other.T, i)
				}
			}
			r := f.havoc(st, "app", t)
			st.assume(fmt.Sprintf("(= (%s.len %s) (+ (%s.len %s) %s))", so, r.T, so, base.T, olen))
			// appending nothing to the nil slice gives the nil slice back (append([]byte(nil), empty...) == nil)
			st.assume(fmt.Sprintf("(= (%s.off %s) (ite (and (< (%s.off %s) 0) (= %s 0)) (- 1) 0))", so, r.T, so, base.T, olen))
			st.assume(fmt.Sprintf("(forall ((i!a Int)) (=> (and (<= 0 i!a) (< i!a (%s.len %s))) (= (select (%s.arr %s) i!a) (select (%s.arr %s) (+ (%s.off %s) i!a)))))", so, base.T, so, r.T, so, base.T, so, base.T))
			st.assume(fmt.Sprintf("(forall ((i!a Int)) (=> (and (<= 0 i!a) (< i!a %s)) (= (select (%s.arr %s) (+ (%s.len %s) i!a)) %s)))", olen, so, r.T, so, base.T, oelem("i!a")))
			return []Val{r}
		}
		cur := base
		for _, a := range call.Args[1:] {
			v := f.convertForAssign(st, f.eval(st, a), sl.Elem())
			// new cap is arbitrary but large enough
			nc := f.c.fresh("cap", "Int")
			st.assume(fmt.Sprintf("(>= %s (+ (%s.len %s) 1))", nc, so, cur.T))
			st.assume(fmt.Sprintf("(< (+ (%s.off %s) %s) 4611686018427387904)", so, cur.T, nc))
			// appending to the nil slice (offset -1) yields a non-nil slice at offset 0
			off := f.name("off", Val{T: fmt.Sprintf("(ite (< (%s.off %s) 0) 0 (%s.off %s))", so, cur.T, so, cur.T), Ty: types.Typ[types.Int]}).T
			cur = f.name("app", Val{T: fmt.Sprintf("(mk_%s (store (%s.arr %s) (+ %s (%s.len %s)) %s) %s (+ (%s.len %s) 1) %s)", so, so, cur.T, off, so, cur.T, v.T, off, so, cur.T, nc), Ty: t})
		}
		return []Val{cur}
	case "make":
		t := f.typeOf(call)
		switch u := t.Underlying().(type) {
		case *types.Slice:
			n := f.eval(st, call.Args[1])
			capT := n.T
			if len(call.Args) > 2 {
				c := f.eval(st, call.Args[2])
				capT = c.T
				f.panicSite(st, "makeslice", fmt.Sprintf("(and (<= 0 %s) (<= %s %s))", n.T, n.T, capT), call.Pos())
			} else {
				f.panicSite(st, "makeslice", fmt.Sprintf("(<= 0 %s)", n.T), call.Pos())
			}
			so := f.c.sorts.SortOf(t)
			es := f.c.sorts.SortOf(u.Elem())
			return []Val{f.name("mk", Val{T: fmt.Sprintf("(mk_%s ((as const (Array Int %s)) %s) 0 %s %s)", so, es, f.c.sorts.Zero(u.Elem()), n.T, capT), Ty: t})}
		case *types.Map:
			for _, a := range call.Args[1:] {
				f.eval(st, a)
			}
			return []Val{f.zero(t)}
		case *types.Chan:
			return []Val{f.havoc(st, "ch", t)}
		}
	case "new":
		t := f.typeOf(call)
		pt := t.Underlying().(*types.Pointer)
		if isBigInt(t) {
			return []Val{f.bigAlloc(st, "0")}
		}
		return []Val{f.mkPtr(f.zero(pt.Elem()))}
	case "copy":
		dst := f.eval(st, call.Args[0])
		src := f.eval(st, call.Args[1])
		dso := f.c.sorts.SortOf(dst.Ty)
		var slen string
		var selem func(i string) string
		if isString(src.Ty) {
			slen = fmt.Sprintf("(gstr_len %s)", src.T)
			selem = func(i string) string { return fmt.Sprintf("(select (gstr_bytes %s) %s)", src.T, i) }
		} else {
			sso := f.c.sorts.SortOf(src.Ty)
			slen = fmt.Sprintf("(%s.len %s)", sso, src.T)
			selem = func(i string) string {
				return fmt.Sprintf("(select (%s.arr %s) (+ (%s.off %s) %s))", sso, src.T, sso, src.T, i)
			}
		}
		n := f.name("ncopy", Val{T: fmt.Sprintf("(ite (<= (%s.len %s) %s) (%s.len %s) %s)", dso, dst.T, slen, dso, dst.T, slen), Ty: types.Typ[types.Int]})
		// new destination array: arbitrary array agreeing with src on [0,n) and with the old one elsewhere
		et := dst.Ty.Underlying().(*types.Slice).Elem()
		na := f.c.fresh("cparr", fmt.Sprintf("(Array Int %s)", f.c.sorts.SortOf(et)))
		st.assume(fmt.Sprintf("(forall ((i!c Int)) (= (select %s i!c) (ite (and (<= (%s.off %s) i!c) (< i!c (+ (%s.off %s) %s))) %s (select (%s.arr %s) i!c))))",
			na, dso, dst.T, dso, dst.T, n.T, selem(fmt.Sprintf("(- i!c (%s.off %s))", dso, dst.T)), dso, dst.T))
		nd := Val{T: fmt.Sprintf("(mk_%s %s (%s.off %s) (%s.len %s) (%s.cap %s))", dso, na, dso, dst.T, dso, dst.T, dso, dst.T), Ty: dst.Ty}
		f.writeBackSlice(st, call.Args[0], nd)
		return []Val{n}
	case "delete":
		m := f.eval(st, call.Args[0])
		mt := m.Ty.Underlying().(*types.Map)
		k := f.convertForAssign(st, f.eval(st, call.Args[1]), mt.Key())
		f.assign(st, call.Args[0], f.mapDelete(st, m, k))
		return nil
	case "clear":
		v := f.eval(st, call.Args[0])
		f.assign(st, call.Args[0], f.zero(v.Ty))
		f.c.note("clear(): modelled as assigning the zero value")
		return nil
	case "print", "println":
		return nil
	case "panic":
		f.doPanic(st, call)
		st.assume("false")
		return nil
	case "recover":
		f.unsupported(call, "recover")
	}
	f.unsupported(call, "builtin %s", name)
	return nil
}

// writeBackSlice stores a new slice value into the expression a slice value was read from. When the
// destination is itself a slice expression x[a:b], the update is applied to the underlying x.
func (f *Frame) writeBackSlice(st *State, e ast.Expr, nv Val) {
	switch x := ast.Unparen(e).(type) {
	case *ast.SliceExpr:
		base := f.eval(st, x.X)
		if _, ok := base.Ty.Underlying().(*types.Slice); ok {
			so := f.c.sorts.SortOf(base.Ty)
			nb := Val{T: fmt.Sprintf("(mk_%s (%s.arr %s) (%s.off %s) (%s.len %s) (%s.cap %s))", so, so, nv.T, so, base.T, so, base.T, so, base.T), Ty: base.Ty}
			f.writeBackSlice(st, x.X, nb)
			return
		}
		if _, ok := base.Ty.Underlying().(*types.Array); ok {
			so := f.c.sorts.SortOf(nv.Ty)
			f.assign(st, x.X, f.fromArr(st, fmt.Sprintf("(%s.arr %s)", so, nv.T), base.Ty))
			return
		}
		f.unsupported(e, "copy into slice of %v", base.Ty)
	default:
		if f.isLvalue(e) {
			f.assign(st, e, nv)
			return
		}
		f.c.note("copy into a temporary dropped")
	}
}

// ---------- contracts ----------

// bindCallee evaluates receiver and arguments and returns name->value bindings for the callee's
// parameters, together with the expressions they came from (for write-back).
type boundArg struct {
	name string
	val  Val
	expr ast.Expr // caller expression (nil for synthesized)
	addr bool     // caller passed &expr or an addressable receiver for a pointer method
	obj  *types.Var
}

func (f *Frame) bindArgs(st *State, call *ast.CallExpr, fn *types.Func, recvExpr ast.Expr) []boundArg {
	sig := fn.Type().(*types.Signature)
	ctsub, _ := f.calleeTypeArgs(call, fn)
	ptype := func(t types.Type) types.Type {
		if len(ctsub) > 0 {
			t = substType(t, ctsub)
		}
		return f.typ(t)
	}
	var out []boundArg
	if recv := sig.Recv(); recv != nil && recvExpr != nil {
		rv := f.eval(st, recvExpr)
		// promoted method: walk the implicit embedded-field path to the actual receiver
		if sx, ok := ast.Unparen(call.Fun).(*ast.SelectorExpr); ok {
			if s := f.info.Selections[sx]; s != nil && len(s.Index()) > 1 {
				for _, fi := range s.Index()[:len(s.Index())-1] {
					if _, isPtr := rv.Ty.Underlying().(*types.Pointer); isPtr {
						rv = f.deref(st, rv, call)
					}
					stt, isStruct := rv.Ty.Underlying().(*types.Struct)
					if !isStruct {
						f.unsupported(call, "promoted method through non-struct %v", rv.Ty)
					}
					rv = f.fieldOf(rv, stt.Field(fi).Name(), call)
				}
			}
		}
		_, wantPtr := recv.Type().Underlying().(*types.Pointer)
		_, havePtr := rv.Ty.Underlying().(*types.Pointer)
		if _, isIfc := recv.Type().Underlying().(*types.Interface); isIfc {
			wantPtr = havePtr
		}
		ba := boundArg{name: recv.Name(), expr: recvExpr, obj: recv}
		if _, isIfc := recv.Type().Underlying().(*types.Interface); isIfc && ba.name == "" {
			ba.name = "self" // interface methods have no receiver name: contracts call it self
		}
		switch {
		case wantPtr && !havePtr:
			ba.val = f.mkPtr(rv)
			ba.addr = true
		case !wantPtr && havePtr:
			ba.val = f.deref(st, rv, call)
		default:
			ba.val = rv
		}
		out = append(out, ba)
	}
	params := sig.Params()
	nargs := len(call.Args)
	// f(g()) with multi-value g
	if nargs == 1 && params.Len() > 1 {
		rs := f.evalMulti(st, call.Args[0])
		for i, r := range rs {
			out = append(out, boundArg{name: params.At(i).Name(), val: f.convertForAssign(st, r, ptype(params.At(i).Type())), obj: params.At(i)})
		}
		return out
	}
	for i := 0; i < params.Len(); i++ {
		p := params.At(i)
		if sig.Variadic() && i == params.Len()-1 {
			if call.Ellipsis.IsValid() {
				v := f.eval(st, call.Args[i])
				out = append(out, boundArg{name: p.Name(), val: f.convertForAssign(st, v, ptype(p.Type())), expr: call.Args[i], obj: p})
			} else {
				// pack the remaining arguments into a slice
				st2 := ptype(p.Type())
				sl := st2.Underlying().(*types.Slice)
				so := f.c.sorts.SortOf(st2)
				es := f.c.sorts.SortOf(sl.Elem())
				arr := fmt.Sprintf("((as const (Array Int %s)) %s)", es, f.c.sorts.Zero(sl.Elem()))
				n := 0
				for j := i; j < nargs; j++ {
					v := f.convertForAssign(st, f.eval(st, call.Args[j]), sl.Elem())
					arr = fmt.Sprintf("(store %s %d %s)", arr, n, v.T)
					n++
				}
				out = append(out, boundArg{name: p.Name(), val: Val{T: fmt.Sprintf("(mk_%s %s 0 %d %d)", so, arr, n, n), Ty: st2}, obj: p})
			}
			break
		}
		if i >= nargs {
			f.unsupported(call, "missing argument")
		}
		a := call.Args[i]
		ba := boundArg{name: p.Name(), expr: a, obj: p}
		if ba.name == "" {
			ba.name = fmt.Sprintf("p%d", i) // unnamed parameter (interface method): p<i> in contracts
		}
		if u, ok := ast.Unparen(a).(*ast.UnaryExpr); ok && u.Op == token.AND {
			if _, isLit := ast.Unparen(u.X).(*ast.CompositeLit); !isLit {
				ba.expr = u.X
				ba.addr = true
			}
		}
		v := f.eval(st, a)
		ba.val = f.convertForAssign(st, v, ptype(p.Type()))
		out = append(out, ba)
	}
	return out
}

func (f *Frame) calleeTypeArgs(call *ast.CallExpr, fn *types.Func) (map[*types.TypeParam]types.Type, map[string]types.Type) {
	sig := fn.Origin().Type().(*types.Signature)
	tps := sig.TypeParams()
	ts := map[*types.TypeParam]types.Type{}
	byName := map[string]types.Type{}
	if rtps := sig.RecvTypeParams(); rtps != nil && rtps.Len() > 0 {
		// method of a generic type: the type arguments are those of the receiver expression's type
		if sel, ok := ast.Unparen(call.Fun).(*ast.SelectorExpr); ok {
			if rt := f.info.TypeOf(sel.X); rt != nil {
				rt = f.typ(rt)
				if p, ok := rt.Underlying().(*types.Pointer); ok {
					rt = p.Elem()
				}
				if n, ok := rt.(*types.Named); ok && n.TypeArgs() != nil && n.TypeArgs().Len() == rtps.Len() {
					for i := 0; i < rtps.Len(); i++ {
						t := f.typ(n.TypeArgs().At(i))
						ts[rtps.At(i)] = t
						byName[rtps.At(i).Obj().Name()] = t
					}
				}
			}
		}
	}
	if tps == nil || tps.Len() == 0 {
		return ts, byName
	}
	var id *ast.Ident
	switch x := ast.Unparen(call.Fun).(type) {
	case *ast.Ident:
		id = x
	case *ast.SelectorExpr:
		id = x.Sel
	case *ast.IndexExpr:
		switch y := x.X.(type) {
		case *ast.Ident:
			id = y
		case *ast.SelectorExpr:
			id = y.Sel
		}
	case *ast.IndexListExpr:
		switch y := x.X.(type) {
		case *ast.Ident:
			id = y
		case *ast.SelectorExpr:
			id = y.Sel
		}
	}
	if id != nil {
		if inst, ok := f.info.Instances[id]; ok {
			for i := 0; i < tps.Len(); i++ {
				t := f.typ(inst.TypeArgs.At(i))
				ts[tps.At(i)] = t
				byName[tps.At(i).Obj().Name()] = t
			}
		}
	}
	return ts, byName
}

func (f *Frame) callByContract(st *State, call *ast.CallExpr, fn *types.Func, ct *Contract, recvExpr ast.Expr) []Val {
	args := f.bindArgs(st, call, fn, recvExpr)
	_, typeArgs := f.calleeTypeArgs(call, fn)
	sig := fn.Type().(*types.Signature)
	var pkg *types.Package = fn.Pkg()
	pre := &SpecEnv{names: map[string]Val{}, pkg: pkg, typeArgs: typeArgs, macros: ct.macros()}
	for _, a := range args {
		if a.name != "" && a.name != "_" {
			pre.names[a.name] = a.val
		}
	}
	pre.gh = map[string]Val{}
	for gk, gv := range st.gh {
		pre.gh[gk] = gv
	}
	if !ct.Pure {
		f.havocCallsOf(st, fn)
	}
	k := f.c.counters["call:"+ct.Name]
	f.c.counters["call:"+ct.Name] = k + 1
	f.c.assumedContracts[ct.Key] = true
	// preconditions
	func() {
		defer f.specGuard(call, "precondition of "+ct.Name)
		for _, r := range ct.Requires {
			t := f.specBool(st, r.Expr, pre)
			f.oblige(st, "call", fmt.Sprintf("%s@%d#requires:%s", ct.Name, k, r.Label), t, call.Pos(), "precondition of "+ct.Name+": "+r.Src)
			st.assume(t)
		}
	}()
	// post state: results fresh; modified pointees fresh
	post := &SpecEnv{names: map[string]Val{}, old: pre, pkg: pkg, typeArgs: typeArgs, macros: ct.macros()}
	for kk, v := range pre.names {
		post.names[kk] = v
	}
	tsub := map[*types.TypeParam]types.Type{}
	if tps := fn.Origin().Type().(*types.Signature).TypeParams(); tps != nil {
		for i := 0; i < tps.Len(); i++ {
			if t, ok := typeArgs[tps.At(i).Obj().Name()]; ok {
				tsub[tps.At(i)] = t
			}
		}
	}
	var results []Val
	osig := fn.Origin().Type().(*types.Signature)
	var pureRes []Val
	if ct.Pure {
		// pure function with a contract: results are uninterpreted applications, constrained by ensures
		func() {
			defer f.specGuard(call, "pure call "+ct.Name)
			var recv *Val
			rest := args
			if sig.Recv() != nil && recvExpr != nil {
				recv = &args[0].val
				rest = args[1:]
			}
			var vals []Val
			for _, a := range rest {
				vals = append(vals, a.val)
			}
			pureRes = f.pureApp(st, fn, recv, vals)
		}()
	}
	for i := 0; i < sig.Results().Len(); i++ {
		rt := f.typ(sig.Results().At(i).Type())
		if len(tsub) > 0 {
			rt = substType(osig.Results().At(i).Type(), tsub)
		}
		var r Val
		if pureRes != nil {
			r = pureRes[i]
		} else {
			r = f.havoc(st, "r_"+fn.Name(), rt)
		}
		if isBigInt(rt) && pureRes == nil {
			// a returned *big.Int is a fresh reference: above every live one
			nx := st.gh[bigNextKey].T
			st.assume(fmt.Sprintf("(>= %s %s)", r.T, nx))
			nn := f.c.fresh("bignext", "Int")
			st.assume(fmt.Sprintf("(and (> %s %s) (>= %s %s))", nn, r.T, nn, nx))
			st.gh[bigNextKey] = Val{T: nn}
			f.c.note("*big.Int results of contracted callees are fresh references (trusted unless the callee is verified with a [distinct]/freshness clause)")
		}
		results = append(results, r)
		post.names[fmt.Sprintf("r%d", i)] = r
		if n := osig.Results().At(i).Name(); n != "" && n != "_" {
			post.names[n] = r
		}
	}
	// modifies: pointer arguments named in the modifies clause get a fresh pointee
	modRoots := map[string]bool{}
	for _, m := range ct.Modifies {
		modRoots[specRoot(m)] = true
	}
	for _, a := range args {
		if !modRoots[a.name] && !ct.ModifiesAll {
			continue
		}
		if a.val.Ty == nil {
			continue
		}
		switch a.val.Ty.Underlying().(type) {
		case *types.Interface:
			// the abstract state behind an interface handle changes: a fresh opaque value, described by
			// the callee's ensures over its pure observers
			if a.val.T != "nil" {
				post.names[a.name] = f.havoc(st, "post_"+a.name, a.val.Ty)
			}
		case *types.Pointer, *types.Slice, *types.Map:
			if paths := modPaths(ct)[a.name]; len(paths) > 0 && !ct.ModifiesAll {
				if _, isPtr := a.val.Ty.Underlying().(*types.Pointer); isPtr {
					// only the listed field paths of the pointee change
					func() {
						defer f.specGuard(call, "modifies clause of "+ct.Name)
						post.names[a.name] = f.havocPaths(st, a.val, paths)
					}()
					continue
				}
			}
			if sl, isSl := a.val.Ty.Underlying().(*types.Slice); isSl {
				// the callee writes elements of the caller's slice: same header, arbitrary new contents
				so := f.c.sorts.SortOf(a.val.Ty)
				na := f.c.fresh("post_"+a.name+"_arr", fmt.Sprintf("(Array Int %s)", f.c.sorts.SortOf(sl.Elem())))
				// elements of the backing array outside the slice's window are not touched
				st.assume(fmt.Sprintf("(forall ((j!w Int)) (=> (or (< j!w (%s.off %s)) (>= j!w (+ (%s.off %s) (%s.len %s)))) (= (select %s j!w) (select (%s.arr %s) j!w))))",
					so, a.val.T, so, a.val.T, so, a.val.T, na, so, a.val.T))
				post.names[a.name] = Val{T: fmt.Sprintf("(mk_%s %s (%s.off %s) (%s.len %s) (%s.cap %s))", so, na, so, a.val.T, so, a.val.T, so, a.val.T), Ty: a.val.Ty}
				continue
			}
			nv := f.havoc(st, "post_"+a.name, a.val.Ty)
			if _, isPtr := a.val.Ty.Underlying().(*types.Pointer); isPtr && !isBigInt(a.val.Ty) {
				so := f.c.sorts.SortOf(a.val.Ty)
				st.assume(fmt.Sprintf("(= (%s.nil %s) (%s.nil %s))", so, nv.T, so, a.val.T))
			}
			post.names[a.name] = nv
		}
	}
	func() {
		defer f.specGuard(call, "postcondition of "+ct.Name)
		for _, e := range ct.Ensures {
			st.assume(f.specBool(st, e.Expr, post))
		}
	}()
	// write back modified arguments
	for _, a := range args {
		nv, ok := post.names[a.name]
		if !ok || nv.T == a.val.T || a.expr == nil {
			continue
		}
		f.writeBackArg(st, a, nv)
	}
	return results
}

func (f *Frame) specEvalIn(st *State, e SExpr, env *SpecEnv) Val {
	env.st = st
	return f.specEval(e, env)
}

func specRoot(e SExpr) string {
	switch x := e.(type) {
	case *SIdent:
		return x.Name
	case *SSel:
		return specRoot(x.X)
	case *SIndex:
		return specRoot(x.X)
	}
	return ""
}

// specGuard converts a spec evaluation failure into an "unsupported" failure with position.
func (f *Frame) specGuard(n ast.Node, what string) {
	if r := recover(); r != nil {
		if sf, ok := r.(specFail); ok {
			f.unsupported(n, "%s: %s", what, sf.msg)
		}
		panic(r)
	}
}

func (f *Frame) writeBackArg(st *State, a boundArg, nv Val) {
	if a.addr {
		// callee got a pointer to a's expression: store the new pointee
		if !f.isLvalue(a.expr) {
			return
		}
		f.assign(st, a.expr, f.deref(st, nv, a.expr))
		return
	}
	if _, isSl := nv.Ty.Underlying().(*types.Slice); isSl {
		// elements written by the callee: propagate into the expression the slice was taken from
		// (possibly a slice expression x[a:b] of a larger slice or array)
		f.writeBackSlice(st, a.expr, nv)
		return
	}
	if f.isLvalue(a.expr) {
		cur := f.typeOf(a.expr)
		if f.c.sorts.SortOf(cur) == f.c.sorts.SortOf(nv.Ty) {
			f.assign(st, a.expr, nv)
			return
		}
		// value receiver auto-dereferenced from a pointer etc.: nothing to write back
	}
}

// ---------- inlining ----------

func (f *Frame) inlineable(src *FuncSrc) bool {
	if f.depth >= 4 {
		return false
	}
	if ct := f.c.specs.Contracts[funcKey(src.Obj)]; ct != nil {
		return false
	}
	// not recursive w.r.t. the current inline stack
	for fr := f; fr != nil; fr = fr.parent {
		if fr.fn.Obj == src.Obj {
			return false
		}
	}
	ok := true
	n := 0
	ast.Inspect(src.Decl.Body, func(nd ast.Node) bool {
		switch x := nd.(type) {
		case *ast.ForStmt, *ast.RangeStmt, *ast.GoStmt, *ast.SelectStmt, *ast.FuncLit:
			ok = false
		case *ast.DeferStmt:
			_ = x
			ok = false
		case ast.Stmt:
			n++
		}
		return ok
	})
	return ok && n <= 40
}

func (f *Frame) tryInline(st *State, call *ast.CallExpr, fn *types.Func, src *FuncSrc, recvExpr ast.Expr) (res []Val, ok bool) {
	trial := st.fork()
	nDecls := len(f.c.decls)
	nObls := len(f.c.obls)
	savedCounters := map[string]int{}
	for k, v := range f.c.counters {
		savedCounters[k] = v
	}
	defer func() {
		if r := recover(); r != nil {
			if u, isU := r.(unsupported); isU {
				// fall back to havoc; discard partial effects
				_ = nDecls // declarations stay (harmless); function/constant registries refer to them
				f.c.obls = f.c.obls[:nObls]
				f.c.counters = savedCounters
				f.c.note(fmt.Sprintf("not inlined: %s (%s)", funcKey(fn), u.msg))
				res, ok = nil, false
				return
			}
			panic(r)
		}
	}()
	args := f.bindArgs(trial, call, fn, recvExpr)
	tsub, _ := f.calleeTypeArgs(call, fn)
	callee := &Frame{c: f.c, fn: src, info: src.Pkg.TypesInfo, tsubst: tsub, depth: f.depth + 1, parent: f}
	cst := &State{env: map[types.Object]Val{}, pc: trial.pc, gh: trial.gh}
	osig := src.Obj.Type().(*types.Signature)
	bi := 0
	if osig.Recv() != nil {
		if recvExpr == nil {
			f.unsupported(call, "method expression call")
		}
		cst.env[osig.Recv()] = args[0].val
		bi = 1
	}
	for i := 0; i < osig.Params().Len(); i++ {
		cst.env[osig.Params().At(i)] = args[bi+i].val
	}
	callee.initResults(cst)
	end := callee.execBlock(cst, src.Decl.Body.List)
	if end != nil {
		if osig.Results().Len() > 0 && !callee.namedResults() {
			f.unsupported(call, "inlined function falls off the end")
		}
		var rs []Val
		for _, ro := range callee.resultObjs {
			rs = append(rs, end.env[ro])
		}
		callee.exits = append(callee.exits, &Exit{st: end, results: rs})
	}
	if len(callee.exits) == 0 {
		// callee never returns (always panics)
		st.pc = append(st.pc, "false")
		f.c.inlined[funcKey(fn)] = true
		return f.havocResults(st, call), true
	}
	var rtypes []types.Type
	for i := 0; i < osig.Results().Len(); i++ {
		rtypes = append(rtypes, callee.typ(osig.Results().At(i).Type()))
	}
	// final values of pointer params for write-back
	type wb struct {
		a   boundArg
		obj *types.Var
	}
	var wbs []wb
	if osig.Recv() != nil {
		wbs = append(wbs, wb{args[0], osig.Recv()})
	}
	for i := 0; i < osig.Params().Len(); i++ {
		wbs = append(wbs, wb{args[bi+i], osig.Params().At(i)})
	}
	mst, results := callee.mergeExits(callee.exits, rtypes)
	// restore caller env on top of merged pc/ghost
	finals := map[*types.Var]Val{}
	for _, w := range wbs {
		if v, ok := mst.env[w.obj]; ok {
			finals[w.obj] = v
		}
	}
	st.env = trial.env
	st.pc = mst.pc
	st.gh = mst.gh
	for _, w := range wbs {
		fv, ok := finals[w.obj]
		if !ok || w.a.expr == nil || fv.T == w.a.val.T {
			continue
		}
		switch w.a.val.Ty.Underlying().(type) {
		case *types.Pointer:
			f.writeBackArg(st, w.a, fv)
		}
	}
	// results that are pointers into the callee's parameters become pointers into the caller's
	// arguments (e.g. a helper returning &recv.Field)
	pmap := map[types.Object]boundArg{}
	for _, w := range wbs {
		pmap[w.obj] = w.a
	}
	for i := range results {
		if len(results[i].Refs) > 0 {
			results[i].Refs = f.translateRefs(results[i].Refs, pmap)
		}
	}
	f.c.inlined[funcKey(fn)] = true
	return results, true
}

func (f *Frame) namedResults() bool {
	sig := f.fn.Obj.Type().(*types.Signature)
	return sig.Results().Len() > 0 && sig.Results().At(0).Name() != ""
}

// initResults creates result variables (named or synthetic) with zero values.
func (f *Frame) initResults(st *State) {
	sig := f.fn.Obj.Type().(*types.Signature)
	f.resultObjs = nil
	for i := 0; i < sig.Results().Len(); i++ {
		r := sig.Results().At(i)
		f.resultObjs = append(f.resultObjs, r)
		st.env[r] = f.zero(r.Type())
	}
}

// loopSpecEnv exposes the variables in scope (by name) to loop invariants and in-body assertions.
func (f *Frame) loopSpecEnv(st *State) *SpecEnv {
	env := &SpecEnv{names: map[string]Val{}, pkg: f.fn.Pkg.Types, typeArgs: f.typeArgNames(), st: st}
	if f.contract != nil {
		env.macros = f.contract.macros()
	}
	var objs []types.Object
	for o := range st.env {
		objs = append(objs, o)
	}
	sort.Slice(objs, func(i, j int) bool { return objs[i].Pos() < objs[j].Pos() })
	for _, o := range objs {
		name := o.Name()
		if name == "" || name == "_" {
			continue
		}
		env.names[name] = st.env[o] // later (inner) declarations shadow earlier ones
	}
	if f.entryEnv != nil {
		env.old = f.entryEnv
	}
	for k, v := range f.specEnvExtra {
		env.names[k] = v
	}
	return env
}

func (f *Frame) typeArgNames() map[string]types.Type {
	out := map[string]types.Type{}
	for tp, t := range f.tsubst {
		out[tp.Obj().Name()] = t
	}
	return out
}
