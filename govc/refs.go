package main

import (
	"go/ast"
	"go/token"
	"go/types"
)

// refAlt says: under Cond, this pointer value aliases the variable Root at field path Fields.
// Pointers to struct fields (`sum := &at.Online`, or a helper returning one of several fields) are
// modelled as a copy of the pointee plus these alternatives; a write through the pointer is also
// applied to every aliased location (guarded by its condition), so the aliasing is not lost.
type refAlt struct {
	Cond   string
	Root   types.Object
	Fields []string
}

// lvaluePath decomposes an addressable expression into a root variable and a field path.
func (f *Frame) lvaluePath(e ast.Expr) (types.Object, []string, bool) {
	switch x := ast.Unparen(e).(type) {
	case *ast.Ident:
		if o, ok := f.info.ObjectOf(x).(*types.Var); ok {
			return o, nil, true
		}
	case *ast.StarExpr:
		return f.lvaluePath(x.X)
	case *ast.SelectorExpr:
		sel := f.info.Selections[x]
		if sel == nil || sel.Kind() != types.FieldVal {
			return nil, nil, false
		}
		root, path, ok := f.lvaluePath(x.X)
		if !ok {
			return nil, nil, false
		}
		// follow the (possibly embedded) index path to collect field names
		t := f.typeOf(x.X)
		for _, i := range sel.Index() {
			if p, isPtr := t.Underlying().(*types.Pointer); isPtr {
				t = p.Elem()
			}
			st, isStruct := t.Underlying().(*types.Struct)
			if !isStruct {
				return nil, nil, false
			}
			path = append(path, st.Field(i).Name())
			t = st.Field(i).Type()
		}
		return root, path, true
	}
	return nil, nil, false
}

// propagateRefs applies a write through a pointer to the locations it aliases.
func (f *Frame) propagateRefs(st *State, refs []refAlt, pointee Val) {
	for _, alt := range refs {
		rootVal, ok := st.env[alt.Root]
		if !ok {
			f.unsupported(nil, "write through a pointer into %s which is not in scope", alt.Root.Name())
		}
		if len(alt.Fields) == 0 {
			// pointer to the whole variable
			nv := Val{T: ite(alt.Cond, pointee.T, f.derefIfPtr(st, rootVal).T), Ty: pointee.Ty}
			if _, isPtr := rootVal.Ty.Underlying().(*types.Pointer); isPtr {
				continue // pointer variable pointing to pointer: not modelled
			}
			st.env[alt.Root] = f.name(alt.Root.Name(), nv)
			continue
		}
		old := f.getPath(st, rootVal, alt.Fields)
		nf := Val{T: ite(alt.Cond, pointee.T, old.T), Ty: old.Ty}
		nr := f.setPath(st, rootVal, alt.Fields, nf)
		nr.Refs = rootVal.Refs
		st.env[alt.Root] = f.name(alt.Root.Name(), nr)
		// the root may itself alias something further out
		if len(rootVal.Refs) > 0 {
			f.propagateRefs(st, rootVal.Refs, f.derefIfPtr(st, nr))
		}
	}
}

func (f *Frame) derefIfPtr(st *State, v Val) Val {
	if _, ok := v.Ty.Underlying().(*types.Pointer); ok && !isBigInt(v.Ty) {
		return f.deref(st, v, nil)
	}
	return v
}

// translateRefs rewrites aliases rooted at an inlined callee's parameters into aliases rooted at the
// caller's variables (the arguments the parameters were bound to).
func (f *Frame) translateRefs(refs []refAlt, params map[types.Object]boundArg) []refAlt {
	var out []refAlt
	for _, alt := range refs {
		ba, isParam := params[alt.Root]
		if !isParam {
			// rooted at a callee local: the location dies with the callee frame
			continue
		}
		// the argument value may itself be an aliasing pointer
		if len(ba.val.Refs) > 0 {
			for _, a2 := range ba.val.Refs {
				out = append(out, refAlt{Cond: conj([]string{a2.Cond, alt.Cond}), Root: a2.Root, Fields: append(append([]string(nil), a2.Fields...), alt.Fields...)})
			}
			continue
		}
		if ba.expr == nil {
			f.unsupported(nil, "callee returns a pointer into an argument that is not a caller variable")
		}
		root, path, ok := f.lvaluePath(ba.expr)
		if !ok {
			f.unsupported(ba.expr, "callee returns a pointer into an argument that is not an addressable path")
		}
		out = append(out, refAlt{Cond: alt.Cond, Root: root, Fields: append(append([]string(nil), path...), alt.Fields...)})
	}
	return out
}

var _ = token.NoPos
