package main

import (
	"fmt"
	"go/ast"
	"go/types"
	"strings"
)

// pureApp builds the uninterpreted applications standing for the results of a function declared
// `pure` (trusted: deterministic, no side effects). Arguments are converted to the callee's parameter
// types so that code call sites and spec expressions produce identical terms.
func (f *Frame) pureApp(st *State, fn *types.Func, recv *Val, args []Val) []Val {
	fn = fn.Origin()
	sig := fn.Type().(*types.Signature)
	key := funcKey(fn)
	if st == nil {
		st = &State{} // inside a quantifier: no side assumptions
	}
	var ts, sorts []string
	if r := sig.Recv(); r != nil {
		if recv == nil {
			sfail("pure method %s called without receiver", key)
		}
		rv := *recv
		_, wantPtr := r.Type().Underlying().(*types.Pointer)
		_, havePtr := rv.Ty.Underlying().(*types.Pointer)
		if _, isIfc := r.Type().Underlying().(*types.Interface); isIfc {
			wantPtr = havePtr
		}
		switch {
		case wantPtr && !havePtr:
			rv = f.mkPtr(rv)
		case !wantPtr && havePtr:
			rv = f.deref(st, rv, nil)
		}
		ts = append(ts, rv.T)
		sorts = append(sorts, f.c.sorts.SortOf(rv.Ty))
	}
	if sig.Variadic() {
		sfail("pure variadic function %s not supported", key)
	}
	if len(args) != sig.Params().Len() {
		sfail("pure function %s: want %d arguments, got %d", key, sig.Params().Len(), len(args))
	}
	for i, a := range args {
		pt := sig.Params().At(i).Type()
		if _, wantPtr := pt.Underlying().(*types.Pointer); wantPtr && a.Ty != nil && a.T != "nil" {
			if _, havePtr := a.Ty.Underlying().(*types.Pointer); !havePtr {
				a = f.mkPtr(a)
			}
		}
		v := f.convertForAssign(st, a, pt)
		ts = append(ts, v.T)
		sorts = append(sorts, f.c.sorts.SortOf(pt))
	}
	f.c.note("pure (trusted): " + shortKey(key) + " is a function of its receiver and arguments only, without side effects")
	var out []Val
	for i := 0; i < sig.Results().Len(); i++ {
		rt := sig.Results().At(i).Type()
		rs := f.c.sorts.SortOf(rt)
		ufn := f.c.uf(fmt.Sprintf("pure_%s_%d", shortKey(key), i), sorts, rs)
		term := ufn
		if len(ts) > 0 {
			term = "(" + ufn + " " + strings.Join(ts, " ") + ")"
		}
		if st != nil {
			for _, inv := range f.c.sorts.TypeInv(term, rt, 0) {
				st.assume(inv)
			}
		}
		out = append(out, Val{T: term, Ty: rt})
	}
	if ct := f.c.specs.Contracts[key]; ct != nil && len(ct.Ensures) > 0 && !f.c.pureAxDone[key] &&
		(f.c.fnSrc == nil || funcKey(f.c.fnSrc.Obj) != key) {
		if f.c.pureAxDone == nil {
			f.c.pureAxDone = map[string]bool{}
		}
		f.c.pureAxDone[key] = true
		f.pureAxiom(fn, ct)
	}
	return out
}

// pureAxiom adds the function axiom of a pure function with postconditions:
//   forall receiver, arguments :: requires ==> ensures[results := the function's applications]
// so that specs which apply the function to bound variables (frames over "every other key") can use
// what the function's own contract establishes. The axiom is only as trustworthy as that contract:
// proved when the function is under contract in the same run, assumed when it is marked trusted.
// It is never used while verifying the function itself.
func (f *Frame) pureAxiom(fn *types.Func, ct *Contract) {
	key := funcKey(fn)
	defer func() {
		if r := recover(); r != nil {
			if sf, ok := r.(specFail); ok {
				f.c.note("function axiom of pure " + shortKey(key) + " not generated: " + sf.msg)
				return
			}
			if u, ok := r.(unsupported); ok {
				f.c.note("function axiom of pure " + shortKey(key) + " not generated: " + u.msg)
				return
			}
			panic(r)
		}
	}()
	sig := fn.Type().(*types.Signature)
	if sig.Variadic() || sig.TypeParams() != nil && sig.TypeParams().Len() > 0 {
		return
	}
	env := &SpecEnv{names: map[string]Val{}, pkg: fn.Pkg(), typeArgs: map[string]types.Type{}, macros: ct.macros()}
	env.old = env
	var binders, guards []string
	bindq := func(name string, t types.Type) Val {
		t = f.typ(t)
		nm := fmt.Sprintf("%s!q%d", sanitize(name), f.c.nextQ())
		binders = append(binders, fmt.Sprintf("(%s %s)", nm, f.c.sorts.SortOf(t)))
		guards = append(guards, f.c.sorts.TypeInv(nm, t, 0)...)
		return Val{T: nm, Ty: t}
	}
	var recv *Val
	if r := sig.Recv(); r != nil {
		name := r.Name()
		if name == "" || name == "_" {
			name = "self"
		}
		v := bindq(name, r.Type())
		recv = &v
		env.names[name] = v
	}
	var args []Val
	for i := 0; i < sig.Params().Len(); i++ {
		p := sig.Params().At(i)
		name := p.Name()
		if name == "" || name == "_" {
			name = fmt.Sprintf("p%d", i)
		}
		v := bindq(name, p.Type())
		args = append(args, v)
		env.names[name] = v
	}
	rs := f.pureApp(nil, fn, recv, args)
	var resInv []string
	for i, r := range rs {
		env.names[fmt.Sprintf("r%d", i)] = r
		if n := sig.Results().At(i).Name(); n != "" && n != "_" {
			env.names[n] = r
		}
		// results of a Go function always satisfy their type's range invariants
		resInv = append(resInv, f.c.sorts.TypeInv(r.T, r.Ty, 0)...)
	}
	for _, r := range ct.Requires {
		guards = append(guards, f.specBool(nil, r.Expr, env))
	}
	ens := resInv
	for _, e := range ct.Ensures {
		ens = append(ens, f.specBool(nil, e.Expr, env))
	}
	body := implies(conj(guards), conj(ens))
	if len(binders) > 0 {
		body = fmt.Sprintf("(forall (%s) %s)", strings.Join(binders, " "), body)
	}
	f.c.faxioms = append(f.c.faxioms, body)
	how := "proved in this run if the function is under contract, otherwise assumed"
	if ct.Trusted != "" {
		how = "trusted"
	}
	f.c.note("function axiom: postconditions of pure " + shortKey(key) + " hold for every application (" + how + ")")
}

// callPure handles a code call to a pure function without further contract clauses.
func (f *Frame) callPure(st *State, call *ast.CallExpr, fn *types.Func, recvExpr ast.Expr) []Val {
	args := f.bindArgs(st, call, fn, recvExpr)
	var recv *Val
	rest := args
	if fn.Type().(*types.Signature).Recv() != nil && recvExpr != nil {
		recv = &args[0].val
		rest = args[1:]
	}
	var vals []Val
	for _, a := range rest {
		vals = append(vals, a.val)
	}
	defer f.specGuard(call, "pure call "+fn.Name())
	return f.pureApp(st, fn, recv, vals)
}

// specPureCall evaluates `recv.Method(args)` / `pkg.Func(args)` in a spec when the target is pure.
// which selects the result (name#k).
func (f *Frame) specPureCall(fn *types.Func, recv *Val, args []SExpr, which int, env *SpecEnv) Val {
	key := funcKey(fn)
	ct := f.c.specs.Contracts[key]
	if ct == nil || !ct.Pure {
		sfail("%s is called in a spec but is not declared pure", shortKey(key))
	}
	var vals []Val
	for _, a := range args {
		vals = append(vals, f.specEval(a, env))
	}
	st := env.st
	rs := f.pureApp(st, fn, recv, vals)
	if which >= len(rs) {
		sfail("%s has no result #%d", shortKey(key), which)
	}
	return rs[which]
}

// splitResultIndex parses "name#2" into ("name", 2).
func splitResultIndex(name string) (string, int) {
	if k := strings.Index(name, "#"); k > 0 {
		n := 0
		fmt.Sscan(name[k+1:], &n)
		return name[:k], n
	}
	return name, 0
}

// lookupMethod finds a method by name on the value's type (including unexported methods of the
// type's own package).
func lookupMethod(t types.Type, name string, pkgs ...*types.Package) *types.Func {
	for _, p := range pkgs {
		if o, _, _ := types.LookupFieldOrMethod(t, true, p, name); o != nil {
			if fn, ok := o.(*types.Func); ok {
				return fn
			}
		}
	}
	// the type's own package
	tt := t
	if p, ok := tt.(*types.Pointer); ok {
		tt = p.Elem()
	}
	if n, ok := tt.(*types.Named); ok && n.Obj().Pkg() != nil {
		if o, _, _ := types.LookupFieldOrMethod(t, true, n.Obj().Pkg(), name); o != nil {
			if fn, ok := o.(*types.Func); ok {
				return fn
			}
		}
	}
	return nil
}
