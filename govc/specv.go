package main

import (
	"fmt"
	"go/token"
	"go/types"
	"math/big"
	"strconv"
	"strings"
)

// SpecEnv binds the names a spec expression may mention.
type SpecEnv struct {
	names    map[string]Val
	old      *SpecEnv
	before   *SpecEnv // state at the start of the current loop iteration (`loop k each` clauses)
	pkg      *types.Package
	typeArgs map[string]types.Type
	st       *State // state receiving side assumptions (type invariants of reads); may be nil
	depth    int
	macros   map[string]SExpr // contract-level `let` definitions, expanded where used
	gh       map[string]Val   // ghost-state snapshot overriding st.gh (the entry environment used by old())
	inOld    bool             // evaluating inside old(...)
	localFallback func(name string) (Val, bool) // postconditions only: locals of the function (see postEnv)
}

type specFail struct{ msg string }

func sfail(format string, a ...any) { panic(specFail{fmt.Sprintf(format, a...)}) }

func (e *SpecEnv) child() *SpecEnv {
	n := &SpecEnv{names: map[string]Val{}, old: e.old, before: e.before, pkg: e.pkg, typeArgs: e.typeArgs, st: e.st, depth: e.depth, macros: e.macros, gh: e.gh, inOld: e.inOld, localFallback: e.localFallback}
	for k, v := range e.names {
		n.names[k] = v
	}
	return n
}

func (f *Frame) specBool(st *State, e SExpr, env *SpecEnv) string {
	env.st = st
	v := f.specEval(e, env)
	if !(v.IsBool || v.Ty != nil && isBoolean(v.Ty)) {
		sfail("spec expression %s is not boolean", e.String())
	}
	return v.T
}

func isMathInt(v Val) bool { return v.Ty == nil && !v.IsBool }
func isIntLike(v Val) bool { return isMathInt(v) || v.Ty != nil && isInteger(v.Ty) }
func isBoolLike(v Val) bool {
	return v.Ty == nil && v.IsBool || v.Ty != nil && isBoolean(v.Ty)
}

func (f *Frame) resolveType(env *SpecEnv, s string) types.Type {
	s = strings.TrimSpace(s)
	if t, ok := env.typeArgs[s]; ok {
		return t
	}
	switch {
	case strings.HasPrefix(s, "[]"):
		return types.NewSlice(f.resolveType(env, s[2:]))
	case strings.HasPrefix(s, "*"):
		return types.NewPointer(f.resolveType(env, s[1:]))
	case strings.HasPrefix(s, "map["):
		d := 0
		for i := 3; i < len(s); i++ {
			if s[i] == '[' {
				d++
			} else if s[i] == ']' {
				d--
				if d == 0 {
					return types.NewMap(f.resolveType(env, s[4:i]), f.resolveType(env, s[i+1:]))
				}
			}
		}
	case strings.HasPrefix(s, "["):
		k := strings.Index(s, "]")
		n, err := strconv.Atoi(s[1:k])
		if err != nil {
			sfail("bad array type %s", s)
		}
		return types.NewArray(f.resolveType(env, s[k+1:]), int64(n))
	}
	if o := types.Universe.Lookup(s); o != nil {
		if tn, ok := o.(*types.TypeName); ok {
			return tn.Type()
		}
	}
	if k := strings.Index(s, "."); k >= 0 {
		pn, tn := s[:k], s[k+1:]
		if p := f.findImport(env.pkg, pn); p != nil {
			if o, ok := p.Scope().Lookup(tn).(*types.TypeName); ok {
				return o.Type()
			}
		}
		sfail("unknown type %s", s)
	}
	if env.pkg != nil {
		if o, ok := env.pkg.Scope().Lookup(s).(*types.TypeName); ok {
			return o.Type()
		}
	}
	sfail("unknown type %s", s)
	return nil
}

func (f *Frame) findImport(pkg *types.Package, name string) *types.Package {
	if pkg == nil {
		return nil
	}
	for _, p := range pkg.Imports() {
		if p.Name() == name {
			return p
		}
	}
	// fall back to any loaded package with that name (std contracts refer to e.g. math)
	for path, p := range f.c.w.Pkgs {
		if p.Types != nil && p.Types.Name() == name && (strings.HasSuffix(path, "/"+name) || path == name) {
			return p.Types
		}
	}
	return nil
}

// specEval evaluates a spec expression; long closed sub-terms (no quantifier-bound variable inside)
// are given an SMT name so that formulas stay small.
func (f *Frame) specEval(e SExpr, env *SpecEnv) Val {
	v := f.specEval1(e, env)
	switch e.(type) {
	case *SSel, *SIndex:
		// a Go integer read through a field/element is within its type's range (true of every
		// well-typed value; stated once per term)
		if v.Ty != nil && isInteger(v.Ty) && env.st != nil && !strings.Contains(v.T, "!q") && !f.c.rangeSeen[v.T] {
			if _, isConst := constOf(v); !isConst {
				f.c.rangeSeen[v.T] = true
				for _, inv := range f.c.sorts.TypeInv(v.T, v.Ty, 0) {
					f.c.axioms = append(f.c.axioms, inv)
				}
			}
		}
	}
	switch e.(type) {
	case *SSel, *SIndex, *SCall:
		if len(v.T) > 80 && v.T != "nil" && !strings.Contains(v.T, "!q") {
			return f.name("s", v)
		}
	}
	return v
}

func (f *Frame) specEval1(e SExpr, env *SpecEnv) Val {
	switch x := e.(type) {
	case *SNum:
		n, ok := new(big.Int).SetString(x.Val, 0)
		if !ok {
			sfail("bad number %s", x.Val)
		}
		return Val{T: smtInt(n)}
	case *SBool:
		return Val{T: fmt.Sprint(x.Val), IsBool: true}
	case *SStr:
		return f.strConst(x.Val, types.Typ[types.String])
	case *SIdent:
		return f.specIdent(x.Name, env)
	case *SUnary:
		v := f.specEval(x.X, env)
		switch x.Op {
		case "!":
			if !isBoolLike(v) {
				sfail("! applied to non-boolean %s", x.X)
			}
			return Val{T: not(v.T), IsBool: true}
		case "-":
			if !isIntLike(v) {
				sfail("- applied to non-integer %s", x.X)
			}
			if c, ok := constOf(v); ok {
				return Val{T: smtInt(new(big.Int).Neg(c))}
			}
			return Val{T: fmt.Sprintf("(- %s)", v.T)}
		case "&":
			// &x: a pointer to the value of x (pointers are values in this model: non-nil flag + pointee)
			if v.Ty == nil {
				sfail("& applied to a mathematical value %s", x.X)
			}
			return f.mkPtr(v)
		case "*":
			if v.Ty == nil {
				sfail("* applied to a non-pointer %s", x.X)
			}
			if _, ok := v.Ty.Underlying().(*types.Pointer); !ok {
				sfail("* applied to a non-pointer %s", x.X)
			}
			st := env.st
			if st == nil {
				st = &State{}
			}
			return f.deref(st, v, nil)
		}
	case *SBinary:
		return f.specBinary(x, env)
	case *SLet:
		v := f.specEval(x.Val, env)
		ne := env.child()
		ne.names[x.Name] = v
		return f.specEval(x.Body, ne)
	case *SSel:
		if id, ok := x.X.(*SIdent); ok {
			isLocal := false
			if env.localFallback != nil {
				if _, ok := env.names[id.Name]; !ok {
					_, isLocal = env.localFallback(id.Name) // a local of the function shadows an imported package name
				}
			}
			if _, bound := env.names[id.Name]; !bound && !isLocal && env.macros[id.Name] == nil {
				if p := f.findImport(env.pkg, id.Name); p != nil && (env.pkg == nil || env.pkg.Scope().Lookup(id.Name) == nil) {
					return f.specPkgObj(p, x.Name, env)
				}
			}
		}
		v := f.specEval(x.X, env)
		return f.specField(v, x.Name, env)
	case *SIndex:
		base := f.specEval(x.X, env)
		idx := f.specEval(x.I, env)
		return f.specIndex(base, idx, env)
	case *SSlice:
		// a[:] of an array (the whole array as a slice), same term as the code's a[:]
		if x.Lo == nil && x.Hi == nil {
			base := f.specEval(x.X, env)
			if base.Ty != nil {
				if arr, ok := base.Ty.Underlying().(*types.Array); ok {
					st2 := types.NewSlice(arr.Elem())
					so := f.c.sorts.SortOf(st2)
					return Val{T: fmt.Sprintf("(mk_%s %s 0 (- %d 0) (- %d 0))", so, f.arrTerm(base), arr.Len(), arr.Len()), Ty: st2}
				}
				if _, ok := base.Ty.Underlying().(*types.Slice); ok {
					return base
				}
			}
		}
		sfail("slice expressions in specs are not supported: %s", x)
	case *SCall:
		return f.specCall(x, env)
	case *SQuant:
		ne := env.child()
		var binders, guards []string
		for _, v := range x.Vars {
			nm := fmt.Sprintf("%s!q%d", sanitize(v.Name), f.c.nextQ())
			if v.Type == "int" {
				binders = append(binders, fmt.Sprintf("(%s Int)", nm))
				ne.names[v.Name] = Val{T: nm}
				continue
			}
			t := f.resolveType(env, v.Type)
			binders = append(binders, fmt.Sprintf("(%s %s)", nm, f.c.sorts.SortOf(t)))
			ne.names[v.Name] = Val{T: nm, Ty: t}
			guards = append(guards, f.c.sorts.TypeInv(nm, t, 0)...)
		}
		// bound variables are the same inside old(...): they shadow entry-state names there too
		if ne.old != nil && ne.old != env {
			no := ne.old.child()
			for _, v := range x.Vars {
				no.names[v.Name] = ne.names[v.Name]
			}
			ne.old = no
		}
		saveSt := ne.st
		ne.st = nil // no side assumptions about bound variables
		body := f.specEval(x.Body, ne)
		ne.st = saveSt
		if !isBoolLike(body) {
			sfail("quantifier body is not boolean")
		}
		g := conj(guards)
		if x.Forall {
			return Val{T: fmt.Sprintf("(forall (%s) %s)", strings.Join(binders, " "), implies(g, body.T)), IsBool: true}
		}
		return Val{T: fmt.Sprintf("(exists (%s) %s)", strings.Join(binders, " "), conj([]string{g, body.T})), IsBool: true}
	}
	sfail("unsupported spec expression %s", e)
	return Val{}
}

func (c *Ctx) nextQ() int { c.qN++; return c.qN }

func (f *Frame) specIdent(name string, env *SpecEnv) Val {
	if v, ok := env.names[name]; ok {
		return v
	}
	if m, ok := env.macros[name]; ok {
		if env.depth > 30 {
			sfail("let %s expands recursively", name)
		}
		ne := env.child()
		ne.depth = env.depth + 1
		return f.specEval(m, ne)
	}
	if name == "nil" {
		return Val{T: "nil", Ty: types.Typ[types.UntypedNil]}
	}
	if env.pkg != nil {
		if v, ok := f.specPkgObjOK(env.pkg, name, env); ok {
			return v
		}
	}
	if env.st != nil {
		if v, ok := env.st.gh[name]; ok {
			return v
		}
	}
	if env.localFallback != nil {
		// a postcondition naming a local of the function: at an exit where the local was never assigned
		// it stands for an arbitrary value of its type (the clause must hold for all of them)
		if v, ok := env.localFallback(name); ok {
			return v
		}
	}
	sfail("unknown identifier %q in spec", name)
	return Val{}
}

func (f *Frame) specPkgObj(p *types.Package, name string, env *SpecEnv) Val {
	v, ok := f.specPkgObjOK(p, name, env)
	if !ok {
		sfail("unknown %s.%s in spec", p.Name(), name)
	}
	return v
}

func (f *Frame) specPkgObjOK(p *types.Package, name string, env *SpecEnv) (Val, bool) {
	switch o := p.Scope().Lookup(name).(type) {
	case *types.Const:
		if v, ok := f.constVal(o.Val(), o.Type()); ok {
			if isInteger(o.Type()) {
				v.Ty = nil
			}
			return v, true
		}
	case *types.Var:
		st := env.st
		if st == nil {
			st = &State{}
		}
		return f.globalVar(st, o), true
	}
	return Val{}, false
}

func (f *Frame) specField(v Val, name string, env *SpecEnv) Val {
	if v.Ty == nil {
		sfail("field %s of a mathematical value", name)
	}
	st := env.st
	if st == nil {
		st = &State{}
	}
	cur := v
	if _, ok := cur.Ty.Underlying().(*types.Pointer); ok {
		cur = f.deref(st, cur, nil)
	}
	// pseudo-fields
	if _, ok := cur.Ty.Underlying().(*types.Struct); !ok {
		sfail("field %s of non-struct %v", name, cur.Ty)
	}
	obj, index, _ := types.LookupFieldOrMethod(cur.Ty, true, nil, name)
	if obj == nil && env.pkg != nil {
		obj, index, _ = types.LookupFieldOrMethod(cur.Ty, true, env.pkg, name)
	}
	if obj == nil {
		// unexported field of another package: search by name
		obj, index = findFieldByName(cur.Ty, name)
	}
	if _, isVar := obj.(*types.Var); !isVar || obj == nil {
		sfail("no field %s in %v", name, cur.Ty)
	}
	for _, i := range index {
		if _, ok := cur.Ty.Underlying().(*types.Pointer); ok {
			cur = f.deref(st, cur, nil)
		}
		stt := cur.Ty.Underlying().(*types.Struct)
		cur = f.fieldOf(cur, stt.Field(i).Name(), nil)
	}
	return cur
}

func findFieldByName(t types.Type, name string) (types.Object, []int) {
	st, ok := t.Underlying().(*types.Struct)
	if !ok {
		return nil, nil
	}
	for i := 0; i < st.NumFields(); i++ {
		if st.Field(i).Name() == name {
			return st.Field(i), []int{i}
		}
	}
	for i := 0; i < st.NumFields(); i++ {
		if st.Field(i).Embedded() {
			ft := st.Field(i).Type()
			if p, ok := ft.(*types.Pointer); ok {
				ft = p.Elem()
			}
			if o, idx := findFieldByName(ft, name); o != nil {
				return o, append([]int{i}, idx...)
			}
		}
	}
	return nil, nil
}

func (f *Frame) specIndex(base, idx Val, env *SpecEnv) Val {
	if base.Ty == nil {
		sfail("indexing a mathematical value")
	}
	st := env.st
	if st == nil {
		st = &State{}
	}
	if _, ok := base.Ty.Underlying().(*types.Pointer); ok {
		base = f.deref(st, base, nil)
	}
	switch u := base.Ty.Underlying().(type) {
	case *types.Map:
		so := f.c.sorts.SortOf(base.Ty)
		et := u.Elem()
		present := fmt.Sprintf("(select (%s.dom %s) %s)", so, base.T, idx.T)
		val := fmt.Sprintf("(select (%s.val %s) %s)", so, base.T, idx.T)
		return Val{T: ite(present, val, f.c.sorts.Zero(et)), Ty: et}
	case *types.Array:
		return Val{T: fmt.Sprintf("(select %s %s)", f.arrTerm(base), idx.T), Ty: u.Elem()}
	case *types.Slice:
		so := f.c.sorts.SortOf(base.Ty)
		return Val{T: fmt.Sprintf("(select (%s.arr %s) (+ (%s.off %s) %s))", so, base.T, so, base.T, idx.T), Ty: u.Elem()}
	case *types.Basic:
		if u.Info()&types.IsString != 0 {
			return Val{T: fmt.Sprintf("(select (gstr_bytes %s) %s)", base.T, idx.T), Ty: types.Typ[types.Uint8]}
		}
	}
	sfail("cannot index %v", base.Ty)
	return Val{}
}

func (f *Frame) specBinary(x *SBinary, env *SpecEnv) Val {
	switch x.Op {
	case "&&", "||", "==>", "<==>":
		a := f.specEval(x.X, env)
		// the right operand may rely on the left one for definedness, but specs are total here
		b := f.specEval(x.Y, env)
		if !isBoolLike(a) || !isBoolLike(b) {
			sfail("boolean operator %s on non-boolean operands in %s", x.Op, x)
		}
		switch x.Op {
		case "&&":
			return Val{T: conj([]string{a.T, b.T}), IsBool: true}
		case "||":
			return Val{T: disj([]string{a.T, b.T}), IsBool: true}
		case "==>":
			return Val{T: implies(a.T, b.T), IsBool: true}
		default:
			return Val{T: fmt.Sprintf("(= %s %s)", a.T, b.T), IsBool: true}
		}
	}
	a := f.specEval(x.X, env)
	b := f.specEval(x.Y, env)
	switch x.Op {
	case "==", "!=":
		var eq string
		if isIntLike(a) && isIntLike(b) || isBoolLike(a) && isBoolLike(b) {
			eq = fmt.Sprintf("(= %s %s)", a.T, b.T)
		} else {
			st := env.st
			if st == nil {
				st = &State{}
			}
			if a.T != "nil" && b.T != "nil" && a.Ty != nil && b.Ty != nil {
				sa, sb := f.c.sorts.SortOf(a.Ty), f.c.sorts.SortOf(b.Ty)
				if sa == sb {
					eq = fmt.Sprintf("(= %s %s)", a.T, b.T)
				}
			}
			if eq == "" {
				eq = f.equal(st, a, b, nil)
			}
		}
		if x.Op == "!=" {
			eq = not(eq)
		}
		return Val{T: eq, IsBool: true}
	case "<", "<=", ">", ">=":
		if !isIntLike(a) || !isIntLike(b) {
			sfail("comparison %s on non-integers in %s", x.Op, x)
		}
		return Val{T: fmt.Sprintf("(%s %s %s)", x.Op, a.T, b.T), IsBool: true}
	}
	if !isIntLike(a) || !isIntLike(b) {
		sfail("arithmetic %s on non-integers in %s", x.Op, x)
	}
	ca, aok := constOf(a)
	cb, bok := constOf(b)
	switch x.Op {
	case "+":
		if aok && bok {
			return Val{T: smtInt(new(big.Int).Add(ca, cb))}
		}
		return Val{T: fmt.Sprintf("(+ %s %s)", a.T, b.T)}
	case "-":
		if aok && bok {
			return Val{T: smtInt(new(big.Int).Sub(ca, cb))}
		}
		return Val{T: fmt.Sprintf("(- %s %s)", a.T, b.T)}
	case "*":
		if aok && bok {
			return Val{T: smtInt(new(big.Int).Mul(ca, cb))}
		}
		return Val{T: fmt.Sprintf("(* %s %s)", a.T, b.T)}
	case "/", "div":
		return Val{T: fmt.Sprintf("(div %s %s)", a.T, b.T)}
	case "%", "mod":
		return Val{T: fmt.Sprintf("(mod %s %s)", a.T, b.T)}
	case "^":
		if aok && bok && cb.IsInt64() && cb.Int64() >= 0 && cb.Int64() < 4096 {
			return Val{T: smtInt(new(big.Int).Exp(ca, cb, nil))}
		}
		if aok && ca.Cmp(big.NewInt(2)) == 0 {
			return Val{T: fmt.Sprintf("(pow2 %s)", b.T)}
		}
		sfail("^ needs constant operands (or base 2) in %s", x)
	case "<<":
		return Val{T: fmt.Sprintf("(* %s (pow2 %s))", a.T, b.T)}
	case ">>":
		return Val{T: fmt.Sprintf("(div %s (pow2 %s))", a.T, b.T)}
	case "&":
		if bok {
			if k, ok := isMask(cb); ok {
				return Val{T: fmt.Sprintf("(mod %s %s)", a.T, pow2(k).String())}
			}
		}
		sfail("& in specs needs a constant mask 2^k-1")
	}
	sfail("unsupported operator %s", x.Op)
	return Val{}
}

func (f *Frame) specCall(x *SCall, env *SpecEnv) Val {
	id, isId := x.Fun.(*SIdent)
	if isId {
		switch id.Name {
		case "old":
			if env.inOld {
				return f.specEval(x.Args[0], env) // old(old(e)) == old(e): e.g. a `let` using old() expanded inside old()
			}
			if env.old == nil {
				sfail("old() outside a postcondition")
			}
			oe := env.old.child()
			oe.st = env.st
			oe.macros = env.macros
			oe.inOld = true
			// quantifier-bound variables and lets stay visible inside old()
			for k, v := range env.names {
				if _, ok := oe.names[k]; !ok {
					oe.names[k] = v
				}
			}
			oe.old = nil
			return f.specEval(x.Args[0], oe)
		case "before":
			if env.before == nil {
				sfail("before() outside a `loop k each` clause")
			}
			oe := env.before.child()
			oe.st = env.st
			oe.macros = env.macros
			for k, v := range env.names {
				if _, ok := oe.names[k]; !ok {
					oe.names[k] = v
				}
			}
			return f.specEval(x.Args[0], oe)
		case "len", "cap":
			v := f.specEval(x.Args[0], env)
			if v.Ty == nil {
				sfail("len of mathematical value")
			}
			st := env.st
			if st == nil {
				st = &State{}
			}
			if _, ok := v.Ty.Underlying().(*types.Pointer); ok {
				v = f.deref(st, v, nil)
			}
			switch u := v.Ty.Underlying().(type) {
			case *types.Slice:
				so := f.c.sorts.SortOf(v.Ty)
				return Val{T: fmt.Sprintf("(%s.%s %s)", so, id.Name, v.T)}
			case *types.Array:
				return Val{T: fmt.Sprint(u.Len())}
			case *types.Map:
				so := f.c.sorts.SortOf(v.Ty)
				return Val{T: fmt.Sprintf("(%s.card %s)", so, v.T)}
			case *types.Basic:
				if u.Info()&types.IsString != 0 {
					return Val{T: fmt.Sprintf("(gstr_len %s)", v.T)}
				}
			}
			sfail("len of %v", v.Ty)
		case "int":
			v := f.specEval(x.Args[0], env)
			if !isIntLike(v) {
				sfail("int() of non-integer %s", x.Args[0])
			}
			return Val{T: v.T}
		case "ite":
			c := f.specEval(x.Args[0], env)
			a := f.specEval(x.Args[1], env)
			b := f.specEval(x.Args[2], env)
			// an untyped nil branch takes the type (and zero value) of the other branch
			if a.T == "nil" && b.Ty != nil && b.T != "nil" {
				a = Val{T: f.c.sorts.Zero(b.Ty), Ty: b.Ty}
			} else if b.T == "nil" && a.Ty != nil && a.T != "nil" {
				b = Val{T: f.c.sorts.Zero(a.Ty), Ty: a.Ty}
			}
			r := Val{T: ite(c.T, a.T, b.T), Ty: a.Ty, IsBool: a.IsBool}
			if isIntLike(a) && isIntLike(b) {
				r.Ty = nil
			}
			return r
		case "min", "max":
			if len(x.Args) == 1 {
				if tid, ok := x.Args[0].(*SIdent); ok {
					t := f.resolveType(env, tid.Name)
					lo, hi, ok := intRange(t)
					if !ok {
						sfail("%s(%s): not an integer type", id.Name, tid.Name)
					}
					if id.Name == "max" {
						return Val{T: smtInt(hi)}
					}
					return Val{T: smtInt(lo)}
				}
			}
			a := f.specEval(x.Args[0], env)
			for _, y := range x.Args[1:] {
				b := f.specEval(y, env)
				op := "<="
				if id.Name == "max" {
					op = ">="
				}
				a = Val{T: fmt.Sprintf("(ite (%s %s %s) %s %s)", op, a.T, b.T, a.T, b.T)}
			}
			return a
		case "bigval":
			// bigval(x): mathematical value of a *big.Int in the current (or, under old(), entry) heap
			v := f.specEval(x.Args[0], env)
			var heap string
			if env.gh != nil {
				heap = env.gh[bigHeapKey].T
			} else if env.st != nil {
				heap = env.st.gh[bigHeapKey].T
			}
			if heap == "" {
				sfail("bigval() used where no big-int heap is in scope")
			}
			return Val{T: fmt.Sprintf("(select %s %s)", heap, v.T)}
		case "update":
			// update(x, Field, v): the struct value x with one field replaced
			if len(x.Args) != 3 {
				sfail("update(x, Field, v) takes three arguments")
			}
			fid, ok := x.Args[1].(*SIdent)
			if !ok {
				sfail("update: second argument must be a field name")
			}
			base := f.specEval(x.Args[0], env)
			nv := f.specEval(x.Args[2], env)
			if base.Ty == nil {
				sfail("update of a mathematical value")
			}
			return f.withField(base, fid.Name, nv, nil)
		case "bitor", "bitand", "bitxor":
			// 64-bit bitwise operators: the same uninterpreted functions the code's |, &, ^ map to on
			// non-constant operands (so a clause `r == bitor(a, b)` pins operator and operands, while
			// the bit-level meaning of the operator itself is Go's)
			a := f.specEval(x.Args[0], env)
			b := f.specEval(x.Args[1], env)
			nm := map[string]string{"bitor": "bit_or64", "bitand": "bit_and64", "bitxor": "bit_xor64"}[id.Name]
			fn := f.c.uf(nm, []string{"Int", "Int"}, "Int")
			return Val{T: fmt.Sprintf("(%s %s %s)", fn, a.T, b.T)}
		case "bigfresh":
			// bigfresh(x): x was allocated during this call (not live at entry)
			v := f.specEval(x.Args[0], env)
			if env.old == nil || env.old.gh == nil {
				sfail("bigfresh() outside a postcondition")
			}
			return Val{T: fmt.Sprintf("(>= %s %s)", v.T, env.old.gh[bigNextKey].T), IsBool: true}
		case "as":
			// as(x, T): the value of interface x asserted to the concrete type T (x.(T) in Go)
			if len(x.Args) != 2 {
				sfail("as(x, T) takes two arguments")
			}
			xv := f.specEval(x.Args[0], env)
			tt := f.resolveType(env, x.Args[1].String())
			if xv.Ty == nil {
				sfail("as(x, T): x is not an interface value")
			}
			xs, tso := f.c.sorts.SortOf(xv.Ty), f.c.sorts.SortOf(tt)
			if xs != "Ifc" && xs != "Err" {
				sfail("as(x, T): x is not an interface value")
			}
			un := f.c.uf("unbox_"+xs+"_"+sanitize(tso), []string{xs}, tso)
			return Val{T: fmt.Sprintf("(%s %s)", un, xv.T), Ty: tt}
		case "zero":
			// zero(T): the zero value of a Go type
			t := f.resolveType(env, x.Args[0].String())
			return Val{T: f.c.sorts.Zero(t), Ty: t}
		case "abs":
			a := f.specEval(x.Args[0], env)
			return Val{T: fmt.Sprintf("(abs %s)", a.T)}
		case "pow2":
			a := f.specEval(x.Args[0], env)
			return Val{T: fmt.Sprintf("(pow2 %s)", a.T)}
		case "#in":
			k := f.specEval(x.Args[0], env)
			m := f.specEval(x.Args[1], env)
			if m.Ty == nil {
				if id, ok := x.Args[1].(*SIdent); ok && id.Name == "#visited" {
					// the set of keys a range-over-map loop has already visited
					return Val{T: fmt.Sprintf("(select %s %s)", m.T, k.T), IsBool: true}
				}
				sfail("'in' needs a map")
			}
			st := env.st
			if st == nil {
				st = &State{}
			}
			if _, ok := m.Ty.Underlying().(*types.Pointer); ok {
				m = f.deref(st, m, nil)
			}
			if _, ok := m.Ty.Underlying().(*types.Map); !ok {
				sfail("'in' needs a map, got %v", m.Ty)
			}
			so := f.c.sorts.SortOf(m.Ty)
			return Val{T: fmt.Sprintf("(select (%s.dom %s) %s)", so, m.T, k.T), IsBool: true}
		case "calls":
			// ghost counter: number of calls made so far to functions/methods with this name
			an, ok := x.Args[0].(*SIdent)
			if !ok || len(x.Args) != 1 {
				sfail("calls(Name) takes one function name")
			}
			k := callsKey(an.Name)
			if env.gh != nil {
				if v, ok := env.gh[k]; ok {
					return Val{T: v.T}
				}
			}
			if env.st != nil {
				if v, ok := env.st.gh[k]; ok {
					return Val{T: v.T}
				}
			}
			// a counter this function's own contract does not mention (it comes from a callee's contract):
			// an unconstrained non-negative value, created on demand in the state the clause is read in
			n := f.c.fresh("calls_"+an.Name, "Int")
			f.c.ghSorts[k] = "Int"
			if env.gh != nil {
				env.gh[k] = Val{T: n}
			} else if env.st != nil {
				env.st.gh[k] = Val{T: n}
			}
			if env.st != nil {
				env.st.assume(fmt.Sprintf("(>= %s 0)", n))
			}
			return Val{T: n}
		case "isnil":
			v := f.specEval(x.Args[0], env)
			st := env.st
			if st == nil {
				st = &State{}
			}
			return Val{T: f.equal(st, v, Val{T: "nil", Ty: types.Typ[types.UntypedNil]}, nil), IsBool: true}
		case "uint8", "uint16", "uint32", "uint64", "int8", "int16", "int32", "int64", "uint", "byte":
			v := f.specEval(x.Args[0], env)
			t := types.Universe.Lookup(id.Name).Type()
			return Val{T: wrap(v.T, t), Ty: t}
		}
		// spec function of this package
		if sf := f.lookupSpecFunc(env.pkg, id.Name); sf != nil {
			return f.applySpecFunc(sf, x.Args, env)
		}
		// conversion to a named type of the package: T(x)
		if env.pkg != nil {
			if tn, ok := env.pkg.Scope().Lookup(id.Name).(*types.TypeName); ok && len(x.Args) == 1 {
				v := f.specEval(x.Args[0], env)
				if isInteger(tn.Type()) {
					return Val{T: wrap(v.T, tn.Type()), Ty: tn.Type()}
				}
				return Val{T: v.T, Ty: tn.Type()}
			}
		}
		// uninterpreted ghost function: name#(args)
		if strings.HasPrefix(id.Name, "#") || strings.HasPrefix(id.Name, "uf_") {
			return f.specUF(id.Name, x.Args, env)
		}
		// pure function of the current package: name(args) or name#k(args)
		if env.pkg != nil {
			fname, which := splitResultIndex(id.Name)
			if fn, ok := env.pkg.Scope().Lookup(fname).(*types.Func); ok {
				return f.specPureCall(fn, nil, x.Args, which, env)
			}
		}
		sfail("unknown function %s in spec", id.Name)
	}
	if sel, ok := x.Fun.(*SSel); ok {
		if pid, ok := sel.X.(*SIdent); ok {
			if _, bound := env.names[pid.Name]; !bound {
				if p := f.findImport(env.pkg, pid.Name); p != nil {
					if sf := f.c.specs.SpecFuncs[p.Path()+"."+sel.Name]; sf != nil {
						return f.applySpecFunc(sf, x.Args, env)
					}
					if tn, ok := p.Scope().Lookup(sel.Name).(*types.TypeName); ok && len(x.Args) == 1 {
						v := f.specEval(x.Args[0], env)
						if isInteger(tn.Type()) {
							return Val{T: wrap(v.T, tn.Type()), Ty: tn.Type()}
						}
						return Val{T: v.T, Ty: tn.Type()}
					}
					// pure package-level function
					fname, which := splitResultIndex(sel.Name)
					if fn, ok := p.Scope().Lookup(fname).(*types.Func); ok {
						return f.specPureCall(fn, nil, x.Args, which, env)
					}
				}
			}
		}
		// pure method on a value
		recv := f.specEval(sel.X, env)
		if recv.Ty != nil {
			mname, which := splitResultIndex(sel.Name)
			if fn := lookupMethod(recv.Ty, mname, env.pkg); fn != nil {
				return f.specPureCall(fn, &recv, x.Args, which, env)
			}
			sfail("no method %s on %v", mname, recv.Ty)
		}
	}
	if isId {
		// pure function of the current package: name(args) or name#k(args)
		fname, which := splitResultIndex(id.Name)
		if env.pkg != nil {
			if fn, ok := env.pkg.Scope().Lookup(fname).(*types.Func); ok {
				return f.specPureCall(fn, nil, x.Args, which, env)
			}
		}
	}
	sfail("unsupported call %s in spec", x)
	return Val{}
}

// specUF applies an uninterpreted function whose result sort is given by a suffix:
// uf_name_B (Bool) / uf_name (Int) ; arguments are taken as they come.
func (f *Frame) specUF(name string, args []SExpr, env *SpecEnv) Val {
	var ts, sorts []string
	for _, a := range args {
		v := f.specEval(a, env)
		ts = append(ts, v.T)
		switch {
		case v.Ty != nil:
			sorts = append(sorts, f.c.sorts.SortOf(v.Ty))
		case v.IsBool:
			sorts = append(sorts, "Bool")
		default:
			sorts = append(sorts, "Int")
		}
	}
	ret := "Int"
	isB := false
	if strings.HasSuffix(name, "_B") {
		ret = "Bool"
		isB = true
	}
	fn := f.c.uf(strings.TrimPrefix(name, "#"), sorts, ret)
	if len(ts) == 0 {
		return Val{T: fn, IsBool: isB}
	}
	return Val{T: "(" + fn + " " + strings.Join(ts, " ") + ")", IsBool: isB}
}

func (f *Frame) lookupSpecFunc(pkg *types.Package, name string) *SpecFunc {
	if pkg != nil {
		if sf := f.c.specs.SpecFuncs[pkg.Path()+"."+name]; sf != nil {
			return sf
		}
	}
	return nil
}

func (f *Frame) applySpecFunc(sf *SpecFunc, args []SExpr, env *SpecEnv) Val {
	if len(args) != len(sf.Params) {
		sfail("spec func %s: want %d args, got %d", sf.Name, len(sf.Params), len(args))
	}
	if env.depth > 20 {
		sfail("spec func recursion too deep (%s)", sf.Name)
	}
	pkg := env.pkg
	if p := f.c.w.Pkgs[sf.PkgPath]; p != nil {
		pkg = p.Types
	}
	ne := &SpecEnv{names: map[string]Val{}, pkg: pkg, typeArgs: env.typeArgs, st: env.st, depth: env.depth + 1}
	var argVals []Val
	for i, a := range args {
		v := f.specEval(a, env)
		argVals = append(argVals, v)
		ne.names[sf.Params[i].Name] = v
	}
	opaque := sf.Opaque
	if opaque && f.c.contract != nil {
		for _, r := range f.c.contract.Reveal {
			if r == sf.Name {
				opaque = false
			}
		}
	}
	if sf.Body == nil || opaque {
		// uninterpreted spec function (or an opaque one not revealed by the function being verified)
		var ts, sorts []string
		for i, v := range argVals {
			ps := f.specSort(ne, sf.Params[i].Type)
			if v.Ty != nil && ps != "Int" && ps != "Bool" {
				if _, isPtr := v.Ty.Underlying().(*types.Pointer); isPtr && f.c.sorts.SortOf(v.Ty) != ps {
					st := env.st
					if st == nil {
						st = &State{}
					}
					v = f.deref(st, v, nil)
				}
			}
			ts = append(ts, v.T)
			sorts = append(sorts, ps)
		}
		rs := f.specSort(ne, sf.Ret)
		fn := f.c.uf("sf_"+sf.Name, sorts, rs)
		r := Val{T: "(" + fn + " " + strings.Join(ts, " ") + ")"}
		switch sf.Ret {
		case "bool":
			r.IsBool = true
		case "int":
		default:
			r.Ty = f.resolveType(ne, sf.Ret)
		}
		return r
	}
	return f.specEval(sf.Body, ne)
}

func (f *Frame) specSort(env *SpecEnv, tname string) string {
	switch tname {
	case "int":
		return "Int"
	case "bool":
		return "Bool"
	}
	return f.c.sorts.SortOf(f.resolveType(env, tname))
}

var _ = token.NoPos
