package main

import (
	"fmt"
	"go/ast"
	"go/token"
	"go/types"
	"sort"
	"strings"
)

// ownsObligations checks an ownership condition on a struct field (`owns T.f: g, h`): every function
// of the package that mentions x.f must be one of the listed owners, unless all it does is compare the
// field with nil. One obligation is generated per function that mentions the field; its goal is the
// constant true or false, so the verdict is syntactic and the solver only records it. A function value
// or closure counts for the declaration that encloses it.
func ownsObligations(w *World, specs *Specs, key string) ([]*Obligation, error) {
	ow := specs.Owns[key]
	if ow == nil {
		return nil, fmt.Errorf("owns clause %s not found", key)
	}
	pkg := w.Pkgs[ow.PkgPath]
	if pkg == nil {
		return nil, fmt.Errorf("owns %s: package %s not loaded", key, ow.PkgPath)
	}
	tn, _ := pkg.Types.Scope().Lookup(ow.Type).(*types.TypeName)
	if tn == nil {
		return nil, fmt.Errorf("owns %s: no type %s", key, ow.Type)
	}
	st, _ := tn.Type().Underlying().(*types.Struct)
	if st == nil {
		return nil, fmt.Errorf("owns %s: %s is not a struct", key, ow.Type)
	}
	var field *types.Var
	for i := 0; i < st.NumFields(); i++ {
		if st.Field(i).Name() == ow.Field {
			field = st.Field(i)
		}
	}
	if field == nil {
		return nil, fmt.Errorf("owns %s: no field %s", key, ow.Field)
	}
	allowed := map[string]bool{}
	for _, a := range ow.Allowed {
		allowed[a] = true
	}
	type use struct {
		pos     token.Pos
		nilOnly bool
	}
	uses := map[string][]use{}
	for _, file := range pkg.Syntax {
		for _, d := range file.Decls {
			fd, ok := d.(*ast.FuncDecl)
			if !ok || fd.Body == nil {
				// package-level initialisers mentioning the field
				ast.Inspect(d, func(n ast.Node) bool {
					if id, ok := n.(*ast.Ident); ok && pkg.TypesInfo.Uses[id] == field {
						uses["<package init>"] = append(uses["<package init>"], use{id.Pos(), false})
					}
					return true
				})
				continue
			}
			name := fd.Name.Name
			// nil comparisons: x.f == nil / x.f != nil
			nilCmp := map[*ast.Ident]bool{}
			ast.Inspect(fd.Body, func(n ast.Node) bool {
				be, ok := n.(*ast.BinaryExpr)
				if !ok || (be.Op != token.EQL && be.Op != token.NEQ) {
					return true
				}
				for _, pair := range [][2]ast.Expr{{be.X, be.Y}, {be.Y, be.X}} {
					if id, ok := ast.Unparen(pair[1]).(*ast.Ident); ok && id.Name == "nil" && pkg.TypesInfo.Uses[id] == types.Universe.Lookup("nil") {
						if se, ok := ast.Unparen(pair[0]).(*ast.SelectorExpr); ok {
							nilCmp[se.Sel] = true
						}
					}
				}
				return true
			})
			ast.Inspect(fd, func(n ast.Node) bool {
				id, ok := n.(*ast.Ident)
				if !ok {
					return true
				}
				if pkg.TypesInfo.Uses[id] == field {
					uses[name] = append(uses[name], use{id.Pos(), nilCmp[id]})
				}
				return true
			})
		}
	}
	var names []string
	for n := range uses {
		names = append(names, n)
	}
	sort.Strings(names)
	c := newCtx(w, specs, "owns")
	var obls []*Obligation
	base := shortKey(ow.PkgPath + ".x")
	base = base[:len(base)-1]
	for _, n := range names {
		goal := "true"
		pos := uses[n][0].pos
		if !allowed[n] {
			for _, u := range uses[n] {
				if !u.nilOnly {
					goal = "false"
					pos = u.pos
					break
				}
			}
		}
		p := w.Fset.Position(pos)
		obls = append(obls, &Obligation{
			Name: fmt.Sprintf("%sowns:%s.%s@%s", base, ow.Type, ow.Field, n), Kind: "owns", Decls: 0, Goal: goal,
			Pos: fmt.Sprintf("%s:%d", strings.TrimPrefix(p.Filename, w.Repo+"/"), p.Line),
			Src: fmt.Sprintf("only %v may use %s.%s (other functions may compare it with nil); syntactic check", ow.Allowed, ow.Type, ow.Field),
			Ctx: c, Expect: "unsat"})
	}
	if len(obls) == 0 {
		return nil, fmt.Errorf("owns %s: the field is never mentioned (vacuous)", key)
	}
	return obls, nil
}
