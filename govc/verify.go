package main

import (
	"fmt"
	"go/ast"
	"go/types"
	"sort"
	"strings"
)

// stdHandlers model a few library functions directly (everything else goes through contracts in
// /verif/contracts/std/*.spec or is havocked).
var stdHandlers map[string]func(f *Frame, st *State, call *ast.CallExpr, recv ast.Expr) []Val

func init() {
	stdHandlers = map[string]func(f *Frame, st *State, call *ast.CallExpr, recv ast.Expr) []Val{
		"fmt.Errorf":         newError,
		"errors.New":         newError,
		"fmt.Sprintf":        opaqueString,
		"fmt.Sprint":         opaqueString,
		"fmt.Sprintln":       opaqueString,
		"strconv.Itoa":       opaqueString,
		"strconv.FormatUint": opaqueString,
	}
}

func newError(f *Frame, st *State, call *ast.CallExpr, recv ast.Expr) []Val {
	for _, a := range call.Args {
		f.evalArgLoose(st, a)
	}
	e := f.c.fresh("err", "Err")
	st.assume(fmt.Sprintf("(not (= %s err_nil))", e))
	return []Val{{T: e, Ty: types.Universe.Lookup("error").Type()}}
}

func opaqueString(f *Frame, st *State, call *ast.CallExpr, recv ast.Expr) []Val {
	for _, a := range call.Args {
		f.evalArgLoose(st, a)
	}
	return []Val{f.havoc(st, "str", types.Typ[types.String])}
}

// evalArgLoose evaluates an argument whose value does not matter (message formatting); unsupported
// sub-expressions are ignored.
func (f *Frame) evalArgLoose(st *State, a ast.Expr) {
	nObl := len(f.c.obls)
	defer func() {
		if r := recover(); r != nil {
			if _, ok := r.(unsupported); ok {
				f.c.obls = f.c.obls[:nObl]
				return
			}
			panic(r)
		}
	}()
	tmp := st.fork()
	f.eval(tmp, a)
	// panics inside message arguments (e.g. index) still count
	st.pc = tmp.pc
}

// FuncResult is what verifying one function instance produced.
type FuncResult struct {
	Name     string
	Key      string
	Inst     map[string]string
	Ctx      *Ctx
	Obls     []*Obligation
	BindErr  string // non-empty: the function could not be brought into the subset
	Contract *Contract
	Trusted  bool
	need     *needField
}

func instSuffix(inst map[string]string) string {
	if len(inst) == 0 {
		return ""
	}
	var ks []string
	for k := range inst {
		ks = append(ks, k)
	}
	sort.Strings(ks)
	var vs []string
	for _, k := range ks {
		vs = append(vs, inst[k])
	}
	return "[" + strings.Join(vs, ",") + "]"
}

func shortKey(key string) string {
	k := strings.TrimPrefix(key, modPath+"/")
	// data/basics.OAdd -> basics.OAdd
	if i := strings.LastIndex(k, "/"); i >= 0 {
		k = k[i+1:]
	}
	return k
}

// verifyFunction generates all obligations for one contract instance. Generation runs twice: the
// first pass materialises every struct field and records which ones are touched; the second pass
// declares struct sorts with only those fields (the rest of each struct is one opaque component,
// so equality stays sound), which keeps the SMT datatypes small.
func verifyFunction(w *World, specs *Specs, ct *Contract, inst map[string]string) *FuncResult {
	res := verifyFunctionOnce(w, specs, ct, inst, nil)
	if res.Ctx == nil || res.BindErr != "" {
		return res
	}
	keep := res.Ctx.sorts.used
	for iter := 0; iter < 60; iter++ {
		r2 := verifyFunctionOnce(w, specs, ct, inst, keep)
		if r2.need == nil {
			return r2
		}
		m := keep[r2.need.sort]
		if m == nil {
			m = map[string]bool{}
			keep[r2.need.sort] = m
		}
		m[r2.need.field] = true
	}
	return res // pruning did not converge: fall back to the unpruned encoding
}

func verifyFunctionOnce(w *World, specs *Specs, ct *Contract, inst map[string]string, keep map[string]map[string]bool) (res *FuncResult) {
	name := shortKey(ct.Key) + instSuffix(inst)
	res = &FuncResult{Name: name, Key: ct.Key, Inst: inst, Contract: ct}
	src := w.FuncByName(ct.PkgPath, ct.Name)
	if src == nil {
		res.BindErr = fmt.Sprintf("function %s not found in %s (renamed or removed?)", ct.Name, ct.PkgPath)
		return res
	}
	c := newCtx(w, specs, name)
	c.sorts.keep = keep
	c.contract = ct
	res.Ctx = c
	defer func() {
		if r := recover(); r != nil {
			switch e := r.(type) {
			case unsupported:
				res.BindErr = e.msg
			case specFail:
				res.BindErr = "contract error: " + e.msg
			case needField:
				res.need = &e
			default:
				panic(r)
			}
		}
		res.Obls = c.obls
	}()
	f := &Frame{c: c, fn: src, info: src.Pkg.TypesInfo, top: true, contract: ct, tsubst: map[*types.TypeParam]types.Type{}}
	c.fnSrc = src
	c.tsubst = f.tsubst
	// definitional axioms of the package's uninterpreted spec functions (trusted; listed in evidence)
	var axNames []string
	ctText := ct.text()
	for k, lm := range specs.Lemmas {
		if !lm.Axiom || lm.PkgPath != ct.PkgPath {
			continue
		}
		// only the axioms of spec functions this contract mentions (keeps unrelated quantifiers out)
		relevant := false
		for name, sf := range specs.SpecFuncs {
			if sf.PkgPath == lm.PkgPath && sf.Body == nil && strings.Contains(lm.Src, sf.Name+"(") && strings.Contains(ctText, sf.Name+"(") {
				relevant = true
			}
			_ = name
		}
		if relevant {
			axNames = append(axNames, k)
		}
	}
	sort.Strings(axNames)
	for _, k := range axNames {
		lm := specs.Lemmas[k]
		env := &SpecEnv{names: map[string]Val{}, pkg: src.Pkg.Types, typeArgs: map[string]types.Type{}}
		c.qaxioms = append(c.qaxioms, f.specBool(&State{gh: map[string]Val{}}, lm.Expr, env))
		c.note("axiom (definition of a spec function): " + lm.Name + ": " + lm.Src)
	}
	sig := src.Obj.Type().(*types.Signature)
	typeArgs := map[string]types.Type{}
	tps := sig.TypeParams()
	if tps == nil && sig.Recv() != nil {
		tps = sig.RecvTypeParams()
	}
	if tps != nil && tps.Len() > 0 {
		if len(inst) == 0 {
			res.BindErr = "generic function needs an 'inst' clause"
			return res
		}
		tmpEnv := &SpecEnv{pkg: src.Pkg.Types}
		for i := 0; i < tps.Len(); i++ {
			tp := tps.At(i)
			tn, ok := inst[tp.Obj().Name()]
			if !ok {
				res.BindErr = "inst clause lacks type parameter " + tp.Obj().Name()
				return res
			}
			t := f.resolveType(tmpEnv, tn)
			f.tsubst[tp] = t
			typeArgs[tp.Obj().Name()] = t
		}
	}
	st := &State{env: map[types.Object]Val{}, gh: map[string]Val{}}
	f.initBigHeap(st)
	// ghost call counters: only the names this function's own contract speaks about are counted here
	// (a callee's contract that mentions another counter gets an unconstrained one on demand, specv.go)
	c.tracked = map[string]bool{}
	for _, m := range reCalls.FindAllStringSubmatch(ct.text(), -1) {
		c.tracked[m[1]] = true
	}
	for name := range c.tracked {
		n := c.fresh("calls_"+name, "Int")
		st.gh[callsKey(name)] = Val{T: n}
		c.ghSorts[callsKey(name)] = "Int"
		st.assume(fmt.Sprintf("(>= %s 0)", n))
	}
	entry := &SpecEnv{names: map[string]Val{}, pkg: src.Pkg.Types, typeArgs: typeArgs, macros: ct.macros()}
	bind := func(v *types.Var, kind string) {
		if v == nil {
			return
		}
		val := f.havoc(st, "in_"+v.Name(), v.Type())
		st.env[v] = val
		if v.Name() != "" && v.Name() != "_" {
			entry.names[v.Name()] = val
			c.inputs = append(c.inputs, InputVar{Name: v.Name(), Term: val.T, Type: f.typ(v.Type())})
		}
		// pointer parameters are assumed non-nil (stated in evidence)
		nilable := false
		for _, n := range ct.Nilable {
			if n == v.Name() {
				nilable = true
			}
		}
		if _, ok := val.Ty.Underlying().(*types.Pointer); ok && !isBigInt(val.Ty) && !nilable {
			so := c.sorts.SortOf(val.Ty)
			st.assume(fmt.Sprintf("(not (%s.nil %s))", so, val.T))
			c.note("pointer parameters/receivers assumed non-nil and non-aliased")
		}
		if isBigInt(val.Ty) {
			f.bigParamAssume(st, val.T)
		}
	}
	bind(sig.Recv(), "recv")
	for i := 0; i < sig.Params().Len(); i++ {
		bind(sig.Params().At(i), "param")
	}
	f.entryEnv = entry
	entry.gh = map[string]Val{}
	for k, v := range st.gh {
		entry.gh[k] = v // old(...) sees the entry values of ghost state (big-int heap)
	}
	// preconditions
	for _, r := range ct.Requires {
		st.assume(f.specBool(st, r.Expr, entry))
	}
	c.prePC = append([]string(nil), st.pc...)
	c.preDecls = len(c.decls)
	f.initResults(st)
	if ct.Trusted != "" {
		res.Trusted = true
		return res
	}
	end := f.execBlock(st, src.Decl.Body.List)
	if end != nil {
		var rs []Val
		for _, ro := range f.resultObjs {
			rs = append(rs, end.env[ro])
		}
		if sig.Results().Len() > 0 && !f.namedResults() {
			// unreachable end of a function with results (compiler guarantees a terminating statement)
		} else {
			f.exits = append(f.exits, &Exit{st: end, results: rs, pos: src.Decl.Body.Rbrace})
		}
	}
	// postconditions at every exit
	for ei, ex := range f.exits {
		post := f.postEnv(ex, entry, sig)
		var outs []InputVar
		for i, r := range ex.results {
			outs = append(outs, InputVar{Name: fmt.Sprintf("r%d", i), Term: r.T, Type: r.Ty})
		}
		for _, e := range ct.Ensures {
			t := f.specBool(ex.st, e.Expr, post)
			o := f.oblige(ex.st, "ensures", fmt.Sprintf("%s@exit%d", e.Label, ei), t, ex.pos, e.Src)
			if o != nil {
				o.Outputs = outs
				ec := e
				o.Clause = &ec
			}
		}
		// frame: pointer parameters not named in modifies keep their pointee
		f.frameObligations(ex, entry, sig, ct, ei)
	}
	c.exitCount = len(f.exits)
	c.exitPCs = nil
	for _, ex := range f.exits {
		c.exitPCs = append(c.exitPCs, append([]string(nil), ex.st.pc...))
	}
	return res
}

// postEnv: parameters name their entry values, except pointer parameters and the receiver, which name
// the exit state; old(...) reaches the entry state.
func (f *Frame) postEnv(ex *Exit, entry *SpecEnv, sig *types.Signature) *SpecEnv {
	post := &SpecEnv{names: map[string]Val{}, old: entry, pkg: entry.pkg, typeArgs: entry.typeArgs, st: ex.st, macros: entry.macros}
	for k, v := range entry.names {
		post.names[k] = v
	}
	upd := func(v *types.Var) {
		if v == nil || v.Name() == "" || v.Name() == "_" {
			return
		}
		if _, isPtr := f.typ(v.Type()).Underlying().(*types.Pointer); isPtr {
			if cur, ok := ex.st.env[v]; ok {
				post.names[v.Name()] = cur
			}
		}
		// an interface parameter is a handle to abstract state: it names the exit state as well
		if _, isIfc := f.typ(v.Type()).Underlying().(*types.Interface); isIfc && f.c.sorts.SortOf(f.typ(v.Type())) != "Err" {
			if cur, ok := ex.st.env[v]; ok {
				post.names[v.Name()] = cur
			}
		}
	}
	upd(sig.Recv())
	for i := 0; i < sig.Params().Len(); i++ {
		upd(sig.Params().At(i))
	}
	for i, r := range ex.results {
		post.names[fmt.Sprintf("r%d", i)] = r
		if n := sig.Results().At(i).Name(); n != "" && n != "_" {
			post.names[n] = r
		}
	}
	// Locals of the function may be named in postconditions (glue contracts tie a result to what a call
	// returned). A name must denote one local only; at an exit where it has no value yet it is arbitrary.
	if f.fn != nil && f.fn.Decl.Body != nil {
		post.localFallback = func(name string) (Val, bool) {
			var found *types.Var
			n := 0
			ast.Inspect(f.fn.Decl.Body, func(x ast.Node) bool {
				if id, ok := x.(*ast.Ident); ok && id.Name == name {
					if v, ok := f.info.Defs[id].(*types.Var); ok && v != nil {
						found = v
						n++
					}
				}
				return true
			})
			if n != 1 {
				return Val{}, false
			}
			if cur, ok := ex.st.env[found]; ok {
				return cur, true
			}
			return f.havoc(ex.st, "unset_"+name, found.Type()), true
		}
	}
	return post
}

func (f *Frame) frameObligations(ex *Exit, entry *SpecEnv, sig *types.Signature, ct *Contract, ei int) {
	if ct.ModifiesAll {
		return
	}
	mp := modPaths(ct)
	chk := func(v *types.Var) {
		if v == nil || v.Name() == "" || v.Name() == "_" {
			return
		}
		paths, listed := mp[v.Name()]
		if listed && len(paths) == 0 {
			return // whole pointee may change
		}
		t := f.typ(v.Type())
		if _, isIfc := t.Underlying().(*types.Interface); isIfc && f.c.sorts.SortOf(t) != "Err" && !listed {
			// the abstract state behind an interface parameter not named in modifies is unchanged
			if cur, ok := ex.st.env[v]; ok && cur.T != entry.names[v.Name()].T {
				f.oblige(ex.st, "frame", fmt.Sprintf("%s@exit%d", v.Name(), ei), fmt.Sprintf("(= %s %s)", cur.T, entry.names[v.Name()].T), ex.pos, fmt.Sprintf("state behind %s unchanged (not listed in modifies)", v.Name()))
			}
			return
		}
		if _, isPtr := t.Underlying().(*types.Pointer); !isPtr || isBigInt(t) {
			return
		}
		cur, ok := ex.st.env[v]
		if !ok {
			return
		}
		old := entry.names[v.Name()]
		if cur.T == old.T {
			return
		}
		so := f.c.sorts.SortOf(t)
		what := fmt.Sprintf("*%s unchanged (not listed in modifies)", v.Name())
		if listed {
			// only the listed field paths may differ
			cur = f.maskPaths(ex.st, cur, old, paths)
			what = fmt.Sprintf("*%s unchanged outside the modifies paths", v.Name())
		}
		f.oblige(ex.st, "frame", fmt.Sprintf("%s@exit%d", v.Name(), ei), fmt.Sprintf("(= (%s.val %s) (%s.val %s))", so, cur.T, so, old.T), ex.pos, what)
	}
	chk(sig.Recv())
	for i := 0; i < sig.Params().Len(); i++ {
		chk(sig.Params().At(i))
	}
}
