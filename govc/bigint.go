package main

import (
	"fmt"
	"go/ast"
	"go/types"
)

// *big.Int values are references (positive integers) into a ghost heap `#bigheap: Array Int Int`
// holding their mathematical values; `#bignext` is the allocation counter (every live reference is
// below it, fresh references are numbered from it). This models the aliasing behaviour of the
// math/big API (z.Op(x, y) stores into z and returns z), which the state-proof weight code relies on.
// The contracts of the individual methods below are trusted (documented behaviour of math/big).

const bigHeapKey, bigNextKey = "#bigheap", "#bignext"

func (f *Frame) initBigHeap(st *State) {
	c := f.c
	c.ghSorts[bigHeapKey] = "(Array Int Int)"
	c.ghSorts[bigNextKey] = "Int"
	h := c.fresh("bigheap", "(Array Int Int)")
	n := c.fresh("bignext", "Int")
	st.gh[bigHeapKey] = Val{T: h}
	st.gh[bigNextKey] = Val{T: n}
	st.assume(fmt.Sprintf("(> %s 0)", n))
}

func (f *Frame) bigHeap(st *State) string { return st.gh[bigHeapKey].T }

func (f *Frame) bigVal(st *State, ref string) string {
	return fmt.Sprintf("(select %s %s)", f.bigHeap(st), ref)
}

func (f *Frame) bigStore(st *State, ref, val string) {
	h := f.c.define("bigheap", "(Array Int Int)", fmt.Sprintf("(store %s %s %s)", f.bigHeap(st), ref, val))
	st.gh[bigHeapKey] = Val{T: h}
	f.c.usesBig = true
}

func (f *Frame) bigAlloc(st *State, val string) Val {
	n := st.gh[bigNextKey].T
	ref := f.c.define("bigref", "Int", n)
	st.gh[bigNextKey] = Val{T: f.c.define("bignext", "Int", fmt.Sprintf("(+ %s 1)", n))}
	f.bigStore(st, ref, val)
	return Val{T: ref, Ty: bigPtrType(f)}
}

var bigPtrCache types.Type

func bigPtrType(f *Frame) types.Type {
	if bigPtrCache != nil {
		return bigPtrCache
	}
	if p := f.c.w.Pkgs["math/big"]; p != nil {
		if tn, ok := p.Types.Scope().Lookup("Int").(*types.TypeName); ok {
			bigPtrCache = types.NewPointer(tn.Type())
			return bigPtrCache
		}
	}
	return types.Typ[types.Int]
}

// bigParamAssume: a *big.Int parameter is a live reference.
func (f *Frame) bigParamAssume(st *State, ref string) {
	st.assume(fmt.Sprintf("(and (> %s 0) (< %s %s))", ref, ref, st.gh[bigNextKey].T))
}

func init() {
	reg := func(name string, h func(f *Frame, st *State, call *ast.CallExpr, recv ast.Expr) []Val) {
		if stdHandlersExtra == nil {
			stdHandlersExtra = map[string]func(f *Frame, st *State, call *ast.CallExpr, recv ast.Expr) []Val{}
		}
		stdHandlersExtra["math/big.Int."+name] = h
	}
	// z.Op(x, y): heap[z] = op(heap[x], heap[y]); returns z
	bin := func(op func(a, b string) string) func(f *Frame, st *State, call *ast.CallExpr, recv ast.Expr) []Val {
		return func(f *Frame, st *State, call *ast.CallExpr, recv ast.Expr) []Val {
			z := f.eval(st, recv)
			x := f.eval(st, call.Args[0])
			y := f.eval(st, call.Args[1])
			f.bigStore(st, z.T, op(f.bigVal(st, x.T), f.bigVal(st, y.T)))
			return []Val{z}
		}
	}
	reg("Add", bin(func(a, b string) string { return fmt.Sprintf("(+ %s %s)", a, b) }))
	reg("Sub", bin(func(a, b string) string { return fmt.Sprintf("(- %s %s)", a, b) }))
	reg("Mul", bin(func(a, b string) string { return fmt.Sprintf("(* %s %s)", a, b) }))
	reg("Div", func(f *Frame, st *State, call *ast.CallExpr, recv ast.Expr) []Val {
		z := f.eval(st, recv)
		x := f.eval(st, call.Args[0])
		y := f.eval(st, call.Args[1])
		f.panicSite(st, "bigdiv0", fmt.Sprintf("(not (= %s 0))", f.bigVal(st, y.T)), call.Pos())
		// Euclidean division (math/big Div), which is SMT-LIB div
		f.bigStore(st, z.T, fmt.Sprintf("(div %s %s)", f.bigVal(st, x.T), f.bigVal(st, y.T)))
		return []Val{z}
	})
	reg("Mod", func(f *Frame, st *State, call *ast.CallExpr, recv ast.Expr) []Val {
		z := f.eval(st, recv)
		x := f.eval(st, call.Args[0])
		y := f.eval(st, call.Args[1])
		f.panicSite(st, "bigdiv0", fmt.Sprintf("(not (= %s 0))", f.bigVal(st, y.T)), call.Pos())
		f.bigStore(st, z.T, fmt.Sprintf("(mod %s %s)", f.bigVal(st, x.T), f.bigVal(st, y.T)))
		return []Val{z}
	})
	reg("Lsh", func(f *Frame, st *State, call *ast.CallExpr, recv ast.Expr) []Val {
		z := f.eval(st, recv)
		x := f.eval(st, call.Args[0])
		n := f.eval(st, call.Args[1])
		// exact for shift counts up to 128 (pow2 saturates above): obligation
		f.panicSite(st, "biglsh_range", fmt.Sprintf("(<= %s 128)", n.T), call.Pos())
		f.bigStore(st, z.T, fmt.Sprintf("(* %s (pow2 %s))", f.bigVal(st, x.T), n.T))
		return []Val{z}
	})
	reg("Rsh", func(f *Frame, st *State, call *ast.CallExpr, recv ast.Expr) []Val {
		z := f.eval(st, recv)
		x := f.eval(st, call.Args[0])
		n := f.eval(st, call.Args[1])
		f.panicSite(st, "bigrsh_range", fmt.Sprintf("(<= %s 128)", n.T), call.Pos())
		// floor division by 2^n (math/big Rsh rounds toward negative infinity)
		f.bigStore(st, z.T, fmt.Sprintf("(div %s (pow2 %s))", f.bigVal(st, x.T), n.T))
		return []Val{z}
	})
	reg("QuoRem", func(f *Frame, st *State, call *ast.CallExpr, recv ast.Expr) []Val {
		// z.QuoRem(x, y, r): truncated division; modelled for non-negative operands (obligation)
		z := f.eval(st, recv)
		x := f.eval(st, call.Args[0])
		y := f.eval(st, call.Args[1])
		r := f.eval(st, call.Args[2])
		xv, yv := f.bigVal(st, x.T), f.bigVal(st, y.T)
		f.panicSite(st, "bigdiv0", fmt.Sprintf("(not (= %s 0))", yv), call.Pos())
		f.panicSite(st, "bigquorem_nonneg", fmt.Sprintf("(and (>= %s 0) (> %s 0))", xv, yv), call.Pos())
		q := f.c.define("bigq", "Int", fmt.Sprintf("(div %s %s)", xv, yv))
		m := f.c.define("bigr", "Int", fmt.Sprintf("(mod %s %s)", xv, yv))
		f.bigStore(st, z.T, q)
		f.bigStore(st, r.T, m)
		return []Val{z, r}
	})
	reg("BitLen", func(f *Frame, st *State, call *ast.CallExpr, recv ast.Expr) []Val {
		x := f.eval(st, recv)
		a := f.bigVal(st, x.T)
		n := f.havoc(st, "bitlen", types.Typ[types.Int])
		st.assume(fmt.Sprintf("(>= %s 0)", n.T))
		st.assume(fmt.Sprintf("(=> (= %s 0) (= %s 0))", a, n.T))
		st.assume(fmt.Sprintf("(=> (and (> (abs %s) 0) (< (abs %s) %s)) (and (<= %s 128) (<= (pow2 (- %s 1)) (abs %s)) (< (abs %s) (pow2 %s))))", a, a, pow2(128).String(), n.T, n.T, a, a, n.T))
		st.assume(fmt.Sprintf("(=> (>= (abs %s) %s) (> %s 128))", a, pow2(128).String(), n.T))
		return []Val{n}
	})
	reg("Set", func(f *Frame, st *State, call *ast.CallExpr, recv ast.Expr) []Val {
		z := f.eval(st, recv)
		x := f.eval(st, call.Args[0])
		f.bigStore(st, z.T, f.bigVal(st, x.T))
		return []Val{z}
	})
	reg("SetUint64", func(f *Frame, st *State, call *ast.CallExpr, recv ast.Expr) []Val {
		z := f.eval(st, recv)
		x := f.eval(st, call.Args[0])
		f.bigStore(st, z.T, x.T)
		return []Val{z}
	})
	reg("SetInt64", func(f *Frame, st *State, call *ast.CallExpr, recv ast.Expr) []Val {
		z := f.eval(st, recv)
		x := f.eval(st, call.Args[0])
		f.bigStore(st, z.T, x.T)
		return []Val{z}
	})
	reg("Cmp", func(f *Frame, st *State, call *ast.CallExpr, recv ast.Expr) []Val {
		x := f.eval(st, recv)
		y := f.eval(st, call.Args[0])
		a, b := f.bigVal(st, x.T), f.bigVal(st, y.T)
		return []Val{f.name("cmp", Val{T: fmt.Sprintf("(ite (< %s %s) (- 1) (ite (= %s %s) 0 1))", a, b, a, b), Ty: types.Typ[types.Int]})}
	})
	reg("Sign", func(f *Frame, st *State, call *ast.CallExpr, recv ast.Expr) []Val {
		x := f.eval(st, recv)
		a := f.bigVal(st, x.T)
		return []Val{f.name("sign", Val{T: fmt.Sprintf("(ite (< %s 0) (- 1) (ite (= %s 0) 0 1))", a, a), Ty: types.Typ[types.Int]})}
	})
	reg("Uint64", func(f *Frame, st *State, call *ast.CallExpr, recv ast.Expr) []Val {
		x := f.eval(st, recv)
		a := f.bigVal(st, x.T)
		// the implementation returns the low 64 bits of |x| (documented as undefined when x does not
		// fit: listed in the trusted base)
		f.c.note("big.Int.Uint64 modelled as the low 64 bits of the absolute value (implementation behaviour; the package documents out-of-range results as undefined)")
		return []Val{f.name("u64", Val{T: fmt.Sprintf("(mod (abs %s) 18446744073709551616)", a), Ty: types.Typ[types.Uint64]})}
	})
	reg("IsUint64", func(f *Frame, st *State, call *ast.CallExpr, recv ast.Expr) []Val {
		x := f.eval(st, recv)
		a := f.bigVal(st, x.T)
		return []Val{{T: fmt.Sprintf("(and (>= %s 0) (< %s 18446744073709551616))", a, a), Ty: types.Typ[types.Bool]}}
	})
}

var stdHandlersExtra map[string]func(f *Frame, st *State, call *ast.CallExpr, recv ast.Expr) []Val
