package main

import (
	"encoding/json"
	"fmt"
	"go/ast"
	"go/token"
	"go/types"
	"os"
	"path/filepath"
	"strings"

	"golang.org/x/tools/go/packages"
)

const modPath = "github.com/algorand/go-algorand"

// World is everything loaded from /repo for one check run.
type World struct {
	Repo    string
	Fset    *token.FileSet
	Pkgs    map[string]*packages.Package // by import path (all deps)
	Roots   []*packages.Package
	funcs   map[*types.Func]*FuncSrc
	Overlay string // path of the cgo overlay json (for go test replays)
}

// FuncSrc is a function body in the loaded source.
type FuncSrc struct {
	Decl *ast.FuncDecl
	Pkg  *packages.Package
	Obj  *types.Func
}

// makeCgoOverlay rewrites the #cgo lines of the three crypto files that point to
// ${SRCDIR}/libs/linux/amd64 (absent in a fresh tree) to /verif/build/sodium. The copies are
// regenerated from the current working tree on every run; nothing is written under /repo.
func makeCgoOverlay(repo, verifRoot string) (string, error) {
	sod := filepath.Join(verifRoot, "build", "sodium")
	if _, err := os.Stat(filepath.Join(sod, "lib", "libsodium.a")); err != nil {
		return "", fmt.Errorf("libsodium not built (run setup): %v", err)
	}
	dir := filepath.Join(verifRoot, "build", "overlay", sanitize(repo)) // one overlay per repository root (scratch copies run concurrently)
	if err := os.MkdirAll(dir, 0o755); err != nil {
		return "", err
	}
	repl := map[string]string{}
	for _, f := range []string{"curve25519.go", "batchverifier.go", "vrf.go"} {
		src := filepath.Join(repo, "crypto", f)
		b, err := os.ReadFile(src)
		if err != nil {
			return "", err
		}
		s := strings.ReplaceAll(string(b), "${SRCDIR}/libs/linux/amd64", sod)
		dst := filepath.Join(dir, f)
		old, _ := os.ReadFile(dst)
		if string(old) != s {
			if err := os.WriteFile(dst, []byte(s), 0o644); err != nil {
				return "", err
			}
		}
		repl[src] = dst
	}
	ov := filepath.Join(dir, "ov.json")
	b, _ := json.Marshal(map[string]any{"Replace": repl})
	old, _ := os.ReadFile(ov)
	if string(old) != string(b) {
		if err := os.WriteFile(ov, b, 0o644); err != nil {
			return "", err
		}
	}
	return ov, nil
}

func loadWorld(repo, verifRoot string, patterns []string) (*World, error) {
	ov, err := makeCgoOverlay(repo, verifRoot)
	if err != nil {
		return nil, err
	}
	fset := token.NewFileSet()
	cfg := &packages.Config{
		Mode: packages.NeedName | packages.NeedFiles | packages.NeedCompiledGoFiles | packages.NeedImports |
			packages.NeedDeps | packages.NeedTypes | packages.NeedSyntax | packages.NeedTypesInfo | packages.NeedTypesSizes | packages.NeedModule,
		Dir:        repo,
		Fset:       fset,
		BuildFlags: []string{"-tags=verif", "-overlay=" + ov},
		Env:        os.Environ(),
		ParseFile:  nil,
	}
	pkgs, err := packages.Load(cfg, patterns...)
	if err != nil {
		return nil, err
	}
	w := &World{Repo: repo, Fset: fset, Pkgs: map[string]*packages.Package{}, Roots: pkgs, funcs: map[*types.Func]*FuncSrc{}, Overlay: ov}
	var errs []string
	packages.Visit(pkgs, nil, func(p *packages.Package) {
		w.Pkgs[p.PkgPath] = p
		if strings.HasPrefix(p.PkgPath, modPath) {
			for _, e := range p.Errors {
				errs = append(errs, e.Error())
			}
		}
		if !strings.HasPrefix(p.PkgPath, modPath) {
			return
		}
		for _, f := range p.Syntax {
			for _, d := range f.Decls {
				fd, ok := d.(*ast.FuncDecl)
				if !ok || fd.Body == nil {
					continue
				}
				if obj, ok := p.TypesInfo.Defs[fd.Name].(*types.Func); ok {
					w.funcs[obj] = &FuncSrc{Decl: fd, Pkg: p, Obj: obj}
				}
			}
		}
	})
	if len(errs) > 0 {
		if len(errs) > 8 {
			errs = errs[:8]
		}
		return nil, fmt.Errorf("type errors in /repo (the tree must compile):\n  %s", strings.Join(errs, "\n  "))
	}
	return w, nil
}

// FuncByName finds "pkgpath.Func" or "pkgpath.Recv.Method" (Recv without *).
func (w *World) FuncByName(pkgPath, name string) *FuncSrc {
	p := w.Pkgs[pkgPath]
	if p == nil {
		return nil
	}
	parts := strings.Split(name, ".")
	scope := p.Types.Scope()
	if len(parts) == 1 {
		if f, ok := scope.Lookup(parts[0]).(*types.Func); ok {
			return w.funcs[f]
		}
		return nil
	}
	tn, ok := scope.Lookup(parts[0]).(*types.TypeName)
	if !ok {
		return nil
	}
	named, ok := tn.Type().(*types.Named)
	if !ok {
		return nil
	}
	for i := 0; i < named.NumMethods(); i++ {
		m := named.Method(i)
		if m.Name() == parts[1] {
			return w.funcs[m.Origin()]
		}
	}
	return nil
}

// funcKey gives the canonical contract key of a function object: "pkgpath.Func" or "pkgpath.Recv.Method".
func funcKey(f *types.Func) string {
	f = f.Origin()
	sig := f.Type().(*types.Signature)
	pk := ""
	if f.Pkg() != nil {
		pk = f.Pkg().Path()
	}
	if r := sig.Recv(); r != nil {
		t := r.Type()
		if p, ok := t.(*types.Pointer); ok {
			t = p.Elem()
		}
		switch n := t.(type) {
		case *types.Named:
			return pk + "." + n.Obj().Name() + "." + f.Name()
		case *types.Alias:
			return pk + "." + n.Obj().Name() + "." + f.Name()
		}
		// interface method: find the named interface if possible
		return pk + ".?." + f.Name()
	}
	return pk + "." + f.Name()
}
