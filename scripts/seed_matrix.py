#!/usr/bin/env python3
"""Writes seeded/MATRIX.md from seeded/*/meta.json (what each sub-agent change met when the checks were run
against /repo with the change applied). Cross-property catches are recorded in seeded/cross_caught.json
(seed -> [property whose check reports it, obligation]) after being observed with eval_seed.sh <that property>."""
import json, os, glob
root = os.path.dirname(os.path.dirname(os.path.abspath(__file__)))
cross = {}
cp = os.path.join(root, 'seeded', 'cross_caught.json')
if os.path.exists(cp):
    cross = json.load(open(cp))
rows = []
n = own = other = missed = 0
for d in sorted(glob.glob(os.path.join(root, 'seeded', 'C*_m*'))):
    name = os.path.basename(d)
    m = json.load(open(os.path.join(d, 'meta.json')))
    n += 1
    caught = m.get('caught_by_obligations') or []
    if caught:
        own += 1
        res = 'caught by its own property check: ' + ', '.join(caught[:3])
    elif name in cross:
        other += 1
        res = 'not a function of %s; caught by the check of %s: %s' % (m['property'], cross[name][0], cross[name][1])
    else:
        missed += 1
        res = '**missed** (see DESIGN.md 8.2)'
    rows.append('| %s | %s | %s | %s | %s |' % (name, m['property'], 'yes' if m.get('demo_passes_on_base') else 'NO', 'yes' if m.get('demo_fails_with_change') else 'NO', res))
out = ['# Seeded changes (sub-agents) and what the checks report with each applied to /repo', '',
       '%d changes: %d reported by the check of the property they were written against, %d by the check of the property that owns the changed function, %d missed.' % (n, own, other, missed), '',
       '| seed | property | demo passes on base | demo fails with change | result |', '|---|---|---|---|---|'] + rows
open(os.path.join(root, 'seeded', 'MATRIX.md'), 'w').write('\n'.join(out) + '\n')
print(out[2])
