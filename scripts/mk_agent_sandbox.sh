#!/bin/bash
# usage: mk_agent_sandbox.sh <name>  -> /tmp/sa_<name>/repo (fresh git repo of /repo HEAD without contract files),
# /tmp/sa_<name>/ov.json (cgo overlay so that packages importing crypto build and test), /tmp/sa_<name>/env.sh
set -e
name=$1
D=/tmp/sa_$name
rm -rf $D; mkdir -p $D/repo $D/ovfiles
git -C /repo archive HEAD | tar -x -C $D/repo
find $D/repo -name verif_contracts.go -delete
mkdir -p /tmp/sa_sodium; cp -r /verif/build/sodium/* /tmp/sa_sodium/
python3 - "$D" <<'PY'
import json,sys,os
D=sys.argv[1]
repl={}
for f in ["curve25519.go","batchverifier.go","vrf.go"]:
    src=f"{D}/repo/crypto/{f}"
    s=open(src).read().replace("${SRCDIR}/libs/linux/amd64","/tmp/sa_sodium")
    open(f"{D}/ovfiles/{f}","w").write(s)
    repl[src]=f"{D}/ovfiles/{f}"
json.dump({"Replace":repl},open(f"{D}/ov.json","w"))
PY
cat > $D/env.sh <<EOS
export GOROOT=/root/go/pkg/mod/golang.org/toolchain@v0.0.1-go1.25.3.linux-amd64
export PATH=\$GOROOT/bin:\$PATH
export GOTOOLCHAIN=local GOFLAGS=-mod=mod GOPROXY=off GOSUMDB=off CGO_ENABLED=1
# build/test any package with:  go test -overlay $D/ov.json -vet=off -count=1 ./path/to/pkg -run TestName
EOS
(cd $D/repo && git init -q && git add -A && git -c user.email=a@b -c user.name=agent commit -qm base)
echo $D
