#!/bin/bash
# Hand-build crypto/libsodium-fork (no autotools in the sandbox) into /verif/build/sodium.
# Nothing is written under /repo.
set -e
. "$(dirname "$0")/env.sh"
OUT="$SODIUM_DIR"
if [ -f "$OUT/lib/libsodium.a" ] && [ -f "$OUT/include/sodium.h" ]; then exit 0; fi
W=$(mktemp -d /var/tmp/verif-sodium.XXXXXX)
trap 'rm -rf "$W"' EXIT
cp -r "$REPO/crypto/libsodium-fork/src/libsodium" "$W/src"
cd "$W/src"
sed -e 's/@VERSION@/1.0.18/' -e 's/@SODIUM_LIBRARY_VERSION_MAJOR@/10/' -e 's/@SODIUM_LIBRARY_VERSION_MINOR@/2/' -e 's/@SODIUM_LIBRARY_MINIMAL_DEF@//' include/sodium/version.h.in > include/sodium/version.h
mkdir -p obj
find * -name '*.c' | xargs -P 16 -I{} sh -c 'o=obj/$(echo "{}" | tr / _ | sed "s/\.c$/.o/"); gcc -O2 -fPIC -w -DCONFIGURED=1 -DNATIVE_LITTLE_ENDIAN=1 -DHAVE_TI_MODE=1 -DHAVE_PTHREAD=1 -DHAVE_STDINT_H=1 -DHAVE_INLINE_ASM=1 -DHAVE_SYS_MMAN_H=1 -DHAVE_MMAP=1 -DHAVE_MPROTECT=1 -DHAVE_MLOCK=1 -DHAVE_MADVISE=1 -DHAVE_POSIX_MEMALIGN=1 -DHAVE_NANOSLEEP=1 -DHAVE_GETPID=1 -DHAVE_WEAK_SYMBOLS=1 -DHAVE_EXPLICIT_BZERO=1 -DHAVE_GETRANDOM=1 -DHAVE_SYS_RANDOM_H=1 -D_GNU_SOURCE=1 -DDEV_MODE=0 -I include/sodium -I include -c "{}" -o "$o"'
mkdir -p "$OUT/lib" "$OUT/include"
ar rcs "$OUT/lib/libsodium.a" obj/*.o
cp include/sodium.h "$OUT/include/"
cp -r include/sodium "$OUT/include/"
echo "libsodium built: $(ls -la $OUT/lib/libsodium.a)"
