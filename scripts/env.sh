# sourced by every script: Go environment that works offline in this sandbox.
# Do not rely on the toolchain switch: call the cached go1.25.3 binary directly.
VERIF_ROOT=${VERIF_ROOT:-/verif}
REPO=${REPO:-/repo}
_gomodcache=${GOMODCACHE:-/root/go/pkg/mod}
GO125="$_gomodcache/golang.org/toolchain@v0.0.1-go1.25.3.linux-amd64"
if [ ! -x "$GO125/bin/go" ]; then
  echo "env.sh: cached go1.25.3 toolchain not found at $GO125" >&2
fi
export GOROOT="$GO125"
export PATH="$GO125/bin:$PATH"
export GOTOOLCHAIN=local GOFLAGS=-mod=mod GOPROXY=off GOSUMDB=off GONOSUMDB='*' GONOSUMCHECK=1 GOFLAGS=-mod=mod
export CGO_ENABLED=1
export SODIUM_DIR="$VERIF_ROOT/build/sodium"
