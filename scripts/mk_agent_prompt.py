#!/usr/bin/env python3
"""usage: mk_agent_prompt.py <prop-id> <sandbox-name>  -> prints the sub-agent prompt (property text only, nothing from /verif)"""
import json,sys,os
root=os.path.dirname(os.path.dirname(os.path.abspath(__file__)))
t=open(os.path.join(root,'scripts','agent_prompt_template.txt')).read()
props={json.loads(l)['id']:json.loads(l) for l in open(os.path.join(root,'properties.jsonl'))}
p=props[sys.argv[1]]
print(t.replace('__ID__',p['id']).replace('__TITLE__',p['title']).replace('__STATEMENT__',p['statement']).replace('__FILES__',', '.join(p['anchors']['files'])).replace('__NAME__',sys.argv[2]))
