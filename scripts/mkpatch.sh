#!/bin/bash
# usage: mkpatch.sh <id> <name> <expect> <file> <perl-substitution>   (creates selftest/<id>/<name>.patch)
cd "$(dirname "$0")/.."
id=$1; name=$2; expect=$3; file=$4; subst=$5
mkdir -p selftest/$id
T=$(mktemp -d /var/tmp/verif-mk.XXXXXX)
mkdir -p $T/a/$(dirname $file) $T/b/$(dirname $file)
cp /repo/$file $T/a/$file; cp /repo/$file $T/b/$file
perl -0pi -e "$subst" $T/b/$file
if cmp -s $T/a/$file $T/b/$file; then echo "mkpatch: substitution did not change $file ($name)"; rm -rf $T; exit 1; fi
{ echo "# expect: $expect"; (cd $T && diff -u a/$file b/$file); } > selftest/$id/$name.patch
rm -rf $T
echo "wrote selftest/$id/$name.patch"
