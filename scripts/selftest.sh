#!/bin/bash
# Must-fail / must-pass corpus: applies each selftest/<id>/*.patch to a scratch copy of /repo and
# checks that the property check reports (or does not report) a violation naming the expected obligation.
# usage: selftest.sh [<id> ...]     exit 0 iff every patch behaves as its "# expect:" header says.
cd "$(dirname "$0")/.."
. ./scripts/env.sh
ids="$@"
[ -z "$ids" ] && ids=$(ls selftest 2>/dev/null)
fail=0; total=0
for id in $ids; do
  for p in selftest/$id/*.patch; do
    [ -f "$p" ] || continue
    total=$((total+1))
    expect=$(grep -m1 '^# expect:' "$p" | sed 's/^# expect: *//')
    S=$(mktemp -d /var/tmp/verif-scratch.XXXXXX)
    rsync -a --exclude .git /repo/ "$S/"
    if ! (cd "$S" && patch -p1 -s < "$OLDPWD/$p" >/dev/null 2>&1); then
      echo "SELFTEST $id $(basename $p): PATCH DOES NOT APPLY"; fail=$((fail+1)); rm -rf "$S"; continue
    fi
    O=$(mktemp -d /var/tmp/verif-out.XXXXXX)
    # must-fail patches: stop at the first stages for undischarged obligations (faster); must-pass patches: full strength
    ff=1; [ "$expect" = "PASS" ] && ff=
    out=$(REPO="$S" VERIF_OUT="$O" VERIF_FAST_FAIL=$ff ./build/govc check --prop "$id" 2>&1); rc=$?
    if [ "$expect" = "PASS" ]; then
      if [ $rc -eq 0 ]; then echo "SELFTEST $id $(basename $p): ok (still passes)"; else echo "SELFTEST $id $(basename $p): FALSE ALARM rc=$rc"; echo "$out" | grep -E "FAILED|BROKEN" | head -5; fail=$((fail+1)); fi
    else
      if [ $rc -eq 1 ] && echo "$out" | grep -Eq "FAILED.*($expect)"; then
        conf=$(echo "$out" | grep -c "^VIOLATION.*json$")
        echo "SELFTEST $id $(basename $p): ok (caught: $expect; replay-confirmed lines: $conf)"
      else
        echo "SELFTEST $id $(basename $p): MISSED (rc=$rc, wanted $expect)"; echo "$out" | grep -E "FAILED|BROKEN" | head -5; fail=$((fail+1))
      fi
    fi
    rm -rf "$S" "$O"
  done
done
echo "selftest: $total patches, $fail failures"
[ $fail -eq 0 ]
