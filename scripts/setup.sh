#!/bin/bash
# setup_cmd: build the VC generator and libsodium (offline, from files on disk only).
set -e
cd "$(dirname "$0")/.."
. ./scripts/env.sh
./scripts/build_sodium.sh
mkdir -p build
(cd govc && go build -o ../build/govc .)
echo "setup ok: $(ls build/govc)"
