#!/bin/bash
# usage: replay_finding.sh <finding test file under /verif/findings> <package dir relative to /repo> <TestName>
# Runs a committed demonstration of a recorded finding against the real code (go test -overlay).
cd "$(dirname "$0")/.."
. ./scripts/env.sh
file=$(realpath $1); pkg=$2; test=$3
W=$(mktemp -d /var/tmp/verif-finding.XXXXXX); trap 'rm -rf $W' EXIT
./build/govc list --prop C45 >/dev/null 2>&1   # refresh the cgo overlay for /repo
python3 - "$W" "$file" "$pkg" <<'PY'
import json,sys
W,file,pkg=sys.argv[1:]
ov=json.load(open('/verif/build/overlay/_repo/ov.json'))
ov['Replace'][f'/repo/{pkg}/zz_verif_finding_test.go']=file
json.dump(ov,open(f'{W}/ov.json','w'))
PY
cd /repo/$pkg && go test -overlay $W/ov.json -vet=off -count=1 -v -run "^$test\$" . 2>&1 | tail -8
