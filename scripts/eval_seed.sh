#!/bin/bash
# usage: eval_seed.sh <prop-id> <dir with patch.diff demo_test.go> <name>
# 1. confirms in a scratch copy that the demo test passes without and fails with the patch (and compiles)
# 2. applies the patch to /repo, runs ./check <id>, reverts; reports whether the check caught it
# 3. stores it under /verif/seeded/<name>/
cd "$(dirname "$0")/.."
. ./scripts/env.sh
id=$1; dir=$(realpath $2); name=$3
pkgdir=$(head -8 $dir/demo_test.go | grep -oiE 'directory:? *[a-zA-Z0-9_/.]+' | head -1 | sed -E 's/.*[: ] *//')
[ -n "$pkgdir" ] && [ -d "/repo/$pkgdir" ] || pkgdir=$(grep -m1 '^+++ b/' $dir/patch.diff | sed 's|+++ b/||; s|/[^/]*$||')
S=$(mktemp -d /var/tmp/verif-seed.XXXXXX)
rsync -a --exclude .git /repo/ $S/
find $S -name verif_contracts.go -delete
python3 - "$S" <<'PY'
import json,sys
S=sys.argv[1]
repl={}
for f in ["curve25519.go","batchverifier.go","vrf.go"]:
    s=open(f"{S}/crypto/{f}").read().replace("${SRCDIR}/libs/linux/amd64","/verif/build/sodium")
    open(f"{S}/.ov_{f}","w").write(s); repl[f"{S}/crypto/{f}"]=f"{S}/.ov_{f}"
json.dump({"Replace":repl},open(f"{S}/.ov.json","w"))
PY
cp $dir/demo_test.go $S/$pkgdir/zz_seed_demo_test.go
tests=$(grep -oE '^func (Test[A-Za-z0-9_]+)' $dir/demo_test.go | sed 's/func //' | paste -sd'|')
base=$(cd $S/$pkgdir && go test -overlay $S/.ov.json -vet=off -count=1 -run "^($tests)\$" . 2>&1 | tail -3)
(cd $S && patch -p1 -s < $dir/patch.diff) || { echo "SEED $name: patch does not apply"; rm -rf $S; exit 1; }
mut=$(cd $S/$pkgdir && go test -overlay $S/.ov.json -vet=off -count=1 -run "^($tests)\$" . 2>&1 | tail -3)
rm -rf $S
bok=no; mok=no
echo "$base" | grep -q "^ok" && bok=yes
echo "$mut" | grep -qE "^(FAIL|--- FAIL)" && mok=yes
echo "SEED $name: demo passes on base: $bok ; demo fails with change: $mok (pkg $pkgdir, tests $tests)"
# run the check against /repo with the patch applied
git -C /repo apply $dir/patch.diff || { echo "SEED $name: git apply failed on /repo"; exit 1; }
out=$(VERIF_OUT=/var/tmp/verif-seedout ./build/govc check --prop $id 2>&1); rc=$?
git -C /repo apply -R $dir/patch.diff
caught=$(echo "$out" | grep "^FAILED" | sed 's/:.*//; s/FAILED //' | sort -u | head -6 | paste -sd' ')
echo "SEED $name: check $id rc=$rc caught-by: ${caught:-NONE}"
mkdir -p seeded/$name; cp $dir/patch.diff $dir/demo_test.go seeded/$name/; [ -f $dir/notes.md ] && cp $dir/notes.md seeded/$name/
python3 - "$name" "$id" "$bok" "$mok" "$rc" "$caught" "$pkgdir" "$tests" <<'PY'
import json,sys
name,id,bok,mok,rc,caught,pkg,tests=sys.argv[1:]
json.dump({"property":id,"demo_package":pkg,"demo_tests":tests,"demo_passes_on_base":bok=="yes","demo_fails_with_change":mok=="yes",
 "check_exit_code":int(rc),"caught_by_obligations":caught.split() if caught else [],
 "what_i_ran":[f"go test -overlay <cgo overlay> -run '^({tests})$' ./{pkg} in a scratch copy of /repo with and without patch.diff",f"git -C /repo apply patch.diff; ./check {id}; git -C /repo apply -R $dir/patch.diff"],
 "needs_to_manifest":"see notes.md"},open(f"/verif/seeded/{name}/meta.json","w"),indent=1)
PY
rm -rf /var/tmp/verif-seedout
