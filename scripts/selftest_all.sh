#!/bin/bash
# usage: selftest_all.sh [-j N] [ids...] -- runs scripts/selftest.sh for every selftest/<id> (or the given ids), N at a time
cd "$(dirname "$0")/.."
J=3
if [ "$1" = "-j" ]; then J=$2; shift 2; fi
ids="$@"
[ -z "$ids" ] && ids=$(ls selftest)
mkdir -p /var/tmp/verif-selftestall
printf '%s\n' $ids | xargs -P $J -I{} sh -c './scripts/selftest.sh {} > /var/tmp/verif-selftestall/{}.log 2>&1; echo "{} $(tail -n 1 /var/tmp/verif-selftestall/{}.log)"'
