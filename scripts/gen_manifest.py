#!/usr/bin/env python3
"""Regenerate MANIFEST.json from props/*.json (claimed checks) and meta/na_reasons.json."""
import json, glob, os, subprocess
root = os.path.dirname(os.path.dirname(os.path.abspath(__file__)))
props = [json.loads(l)["id"] for l in open(os.path.join(root, "properties.jsonl"))]
na = json.load(open(os.path.join(root, "meta", "na_reasons.json")))
claimed = {}
for f in sorted(glob.glob(os.path.join(root, "props", "*.json"))):
    c = json.load(open(f))
    if c.get("claimed", True):
        claimed[c["id"]] = c
hooks = []
try:
    out = subprocess.check_output(["git", "-C", "/repo", "log", "--format=%H %s"], text=True)
    for ln in out.splitlines():
        h, s = ln.split(" ", 1)
        if s.startswith("verif hook"):
            hooks.append(h)
except Exception:
    pass
checks = []
for pid in props:
    if pid not in claimed:
        continue
    c = claimed[pid]
    verdict = c.get("verdict", "KERNEL")
    checks.append({
        "property_id": pid,
        "quick_cmd": f"./check {pid}",
        "thorough_cmd": f"VERIF_TIER=thorough ./check {pid} && ./scripts/selftest.sh {pid}",
        "evidence_file": f"evidence/{pid}.json",
        "replay_cmd_template": "cat {path}",
        "engine": "govc",
        "level_claimed": {
            "category": "proof",
            "text": c.get("level_text", f"{verdict}: every obligation generated from the contracts of the listed functions (postconditions, call preconditions, no-panic sites, loop invariants, frames) is discharged by an SMT solver for all inputs; see evidence for the list"),
            "design_ref": c.get("design_ref", "DESIGN.md section 3 " + pid),
        },
        "level_note": c.get("level_note", "trusted: govc VC generator, go/types, SMT solvers, stdlib contracts; not covered: " + c.get("not_covered", "")),
        "technique": c.get("technique", "contract-based deductive verification: WP/symbolic execution of the real Go AST against //@ contracts, obligations discharged by z3/cvc5"),
    })
nal = [{"property_id": p, "reason": na.get(p, "not claimed")} for p in props if p not in claimed]
base = json.load(open("/root/.vp/BASELINE.json"))
m = {
    "version": 1,
    "setup_cmd": "./scripts/setup.sh",
    "hooks": {"guard": "verif", "enable": "contract files /repo/<pkg>/verif_contracts.go are comment-only and carry //go:build verif; govc loads packages with -tags=verif",
              "baseline_off_cmd": base["cmd"], "source_commits": hooks, "add_only": True},
    "engines": [{"name": "govc", "path": "govc/", "serves_properties": sorted(claimed), "kind_free_text": "VC generator over go/ast+go/types for //@ contracts kept in /repo (build tag verif); SMT portfolio z3 4.8.12 / z3 5.1.0 / cvc5 1.0; counterexample replay on the real code via go test -overlay"}],
    "checks": checks,
    "notes": "contract-based deductive verification of the real code; see DESIGN.md. Exit codes: 0 held, 1 VIOLATION, 2 BROKEN machinery (never silently passes).",
    "not_applicable": nal,
}
json.dump(m, open(os.path.join(root, "MANIFEST.json"), "w"), indent=1)
print(f"MANIFEST: {len(checks)} checks, {len(nal)} not applicable")
