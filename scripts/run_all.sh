#!/bin/bash
# usage: run_all.sh [-j N] [ids...]  -- runs ./check for every props/*.json (or the given ids), N at a time; prints a summary
cd "$(dirname "$0")/.."
J=3
if [ "$1" = "-j" ]; then J=$2; shift 2; fi
ids="$@"
[ -z "$ids" ] && ids=$(ls props | sed 's/\.json$//')
mkdir -p /var/tmp/verif-runall
printf '%s\n' $ids | xargs -P $J -I{} sh -c './check {} > /var/tmp/verif-runall/{}.log 2>&1; echo "{} rc=$? $(tail -n 1 /var/tmp/verif-runall/{}.log)"'
